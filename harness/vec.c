/* Vector (src/containers/qvector.c): one API step from an arbitrary valid state.
 *
 * Pre-state: capacity VF_MAX (constant per query), element size VF_OBJSIZE (constant),
 * num <= max symbolic, all element bytes symbolic, growth policy symbolic, initnum
 * symbolic (linear policy).  Every such state is reachable (num x addlast after the
 * constructor; resize() changes max independently of initnum).
 * Operation VF_OP with symbolic index (whole int range), value, flags.
 * Post: ideal-array equations (C10), copies independent (C12), lock balanced (C14, with
 * -DVF_TS), allocation failure atomic (C15, with -DVF_ALLOCFAIL); run with the safety
 * flags + leak check for C11.
 */
#include "vf.h"
#include "stubs.h"
#include "containers/qvector.c"

#ifndef VF_MAX
#define VF_MAX 3
#endif
#ifndef VF_OBJSIZE
#define VF_OBJSIZE 1
#endif
#define CAP (VF_MAX > 0 ? VF_MAX : 1)
#define GCAP (VF_MAX + 8)
#define OS VF_OBJSIZE

#define OP_ADD 1
#define OP_GET 2
#define OP_SET 3
#define OP_POP 4
#define OP_REMOVE 5
#define OP_REVERSE 6
#define OP_RESIZE 7
#define OP_CLEAR 8
#define OP_TOARRAY 9
#define OP_WALK 10
#define OP_SIZE 11
#define OP_CTOR 12
#define OP_GROW2 13 /* two adds in a row (growth then shift) */

struct vf_input {
    uint8_t num, policy, initnum;
    uint8_t data[CAP][OS];
    int index;
    uint8_t variant; /* 0: *at, 1: *first, 2: *last */
    uint8_t newmem;
    uint8_t val[OS], val2[OS];
    int index2;
    uint8_t newmax;
    unsigned failmask;
    int8_t failfrom;
    uint8_t ctor_max;
};
extern struct vf_input vfin;

#ifdef VF_ALLOCFAIL
#define VF_AF 1
#define FP "C15.vector." /* under an allocation-failure schedule the atomicity/validity claims belong to C15 */
#else
#define VF_AF 0
#define FP "C10."
#endif
/* the allocation-failure schedule is active exactly during the API call under test */
#define CALL(stmt) do { vf_alloc_active = VF_AF; stmt; vf_alloc_active = 0; } while (0)

static uint8_t g[GCAP][OS]; /* ideal array */
static size_t gn;

static bool vf_elem_eq(const void *p, const uint8_t *want) {
    for (size_t k = 0; k < OS; k++)
        if (((const uint8_t *)p)[k] != want[k]) return false;
    return true;
}
/* container contents == ideal array */
static bool vf_matches(qvector_t *v) {
    if (v->num != gn) return false;
    for (size_t i = 0; i < GCAP; i++)
        if (i < gn && !vf_elem_eq((uint8_t *)v->data + i * OS, g[i])) return false;
    return true;
}
/* normalise an index the way the documentation describes: negative counts from the back */
static long vf_norm(long idx, size_t n) { return idx < 0 ? idx + (long)n : idx; }

static uint8_t *vf_caller_buf(const uint8_t *src) {
    uint8_t *b = malloc(OS); /* shim: counted only while vf_alloc_active */
    VF_ASSUME(b != NULL);
    for (size_t k = 0; k < OS; k++) b[k] = src[k];
    return b;
}
/* C12 "private copies in": snapshot the container right after the call, then overwrite and release the
 * caller's buffer; the container must still hold the snapshot (independent of whether the call was correct). */
static qvector_t *vf_cur;
static void vf_scribble_free(uint8_t *b) {
    uint8_t snap[GCAP][OS];
    size_t sn = vf_cur ? vf_cur->num : 0;
    for (size_t i = 0; i < GCAP; i++)
        if (i < sn) memcpy(snap[i], (uint8_t *)vf_cur->data + i * OS, OS);
    for (size_t k = 0; k < OS; k++) b[k] = (uint8_t)~b[k];
    free(b);
    if (vf_cur) {
        VF_ASSERT(vf_cur->num == sn, "C12.vector.in.private: overwriting/freeing the caller's buffer after the call does not change the container");
        for (size_t i = 0; i < GCAP; i++)
            if (i < sn) VF_ASSERT(vf_elem_eq((uint8_t *)vf_cur->data + i * OS, snap[i]), "C12.vector.in.private: overwriting/freeing the caller's buffer after the call does not change the container");
    }
}

void vf_harness(void) {
    int opts = 0;
    /* growth policy / initnum / resize target: constants per query where the operation allocates with a size
     * derived from them (symbolic allocation sizes are not tractable), otherwise symbolic */
#ifdef VF_POLICY
    vfin.policy = VF_POLICY;
#endif
#ifdef VF_INITNUM
    vfin.initnum = VF_INITNUM;
#endif
#ifdef VF_NEWMAX
    vfin.newmax = VF_NEWMAX;
#endif
#ifdef VF_FAILMASK
    vfin.failmask = VF_FAILMASK; /* allocation-failure position: constant per query (driver enumerates positions) */
#endif
#ifdef VF_FAILFROM
    vfin.failfrom = VF_FAILFROM;
#else
    vfin.failfrom = -1;
#endif
    VF_ASSUME(vfin.policy <= 2);
    if (vfin.policy == 1) opts |= QVECTOR_RESIZE_LINEAR;
    if (vfin.policy == 2) opts |= QVECTOR_RESIZE_DOUBLE;
#ifdef VF_TS
    opts |= QVECTOR_THREADSAFE;
#endif

#if VF_OP == OP_CTOR
    /* base case: the constructor establishes the invariant (and is failure-atomic) */
    VF_ASSUME(vfin.ctor_max <= 4);
    vf_failmask = vfin.failmask; vf_fail_from = vfin.failfrom;
    qvector_t *v;
    CALL(v = qvector(vfin.ctor_max, OS, opts));
    if (v == NULL) {
        VF_ASSERT(vf_alloc_failed, FP "ctor.ok: constructor succeeds when memory is available");
        VF_ASSERT(vf_live_blocks == 0, "C15.vector.ctor.leak: a failed constructor releases everything it allocated");
        VF_COVER("ctor-failed");
    } else {
        VF_ASSERT(v->num == 0 && v->max == vfin.ctor_max && v->objsize == OS && (v->max == 0 || v->data != NULL), FP "ctor.state: new vector is empty with the requested capacity");
        VF_ASSERT(vf_lock_depth == 0, "C14.vector.ctor: constructor leaves the lock released");
        uint8_t *b = vf_caller_buf(vfin.val);
        bool ok = v->addlast(v, b);
        vf_cur = v;
        vf_scribble_free(b);
        VF_ASSERT(ok && v->num == 1 && vf_elem_eq(v->data, vfin.val), FP "ctor.usable: first append on a new vector works");
        v->free(v);
        VF_ASSERT(vf_live_blocks == 0, "C11.vector.leak: after free() every block the container allocated has been released");
    }
    VF_REACH("end");
    return;
#else
    /* ---------- pre-state ---------- */
    const long live_base = vf_live_blocks;
    qvector_t *v = qvector(VF_MAX, OS, opts);
    VF_ASSUME(v != NULL);
    vf_cur = v;
    VF_ASSUME(vfin.num <= VF_MAX);
    v->num = vfin.num;
    if (vfin.policy == 1) { VF_ASSUME(vfin.initnum >= 1 && vfin.initnum <= 3); v->initnum = vfin.initnum; }
    for (size_t i = 0; i < VF_MAX; i++)
        for (size_t k = 0; k < OS; k++) ((uint8_t *)v->data)[i * OS + k] = vfin.data[i][k];
    gn = vfin.num;
    for (size_t i = 0; i < VF_MAX; i++)
        for (size_t k = 0; k < OS; k++) g[i][k] = vfin.data[i][k];
    const size_t n0 = gn;
    void *ret_copy = NULL;
    int depth0 = vf_lock_depth;
    vf_failmask = vfin.failmask; vf_fail_from = vfin.failfrom;
    errno = 0;

#if VF_OP == OP_ADD || VF_OP == OP_GROW2
    {
        VF_ASSUME(vfin.variant <= 2);
        uint8_t *b = vf_caller_buf(vfin.val);
        bool ok;
        CALL(ok = vfin.variant == 1 ? v->addfirst(v, b) : vfin.variant == 2 ? v->addlast(v, b) : v->addat(v, vfin.index, b));
        vf_scribble_free(b);
        long pos = vfin.variant == 1 ? 0 : vfin.variant == 2 ? (long)n0 : vf_norm(vfin.index, n0);
        bool valid = pos >= 0 && pos <= (long)n0;
        if (ok) {
            VF_ASSERT(valid, FP "add.range: insertion at an out-of-range index is refused");
            for (long i = (long)gn; i > pos; i--) memcpy(g[i], g[i - 1], OS);
            memcpy(g[pos], vfin.val, OS);
            gn++;
            VF_COVER("add-ok");
        } else {
            VF_ASSERT(!valid || vf_alloc_failed, FP "add.accept: insertion at a valid index succeeds");
            VF_COVER("add-refused");
        }
        if (ok) VF_ASSERT(vf_matches(v), FP "add.effect: insert places the element at exactly that position and shifts the rest");
        else VF_ASSERT(vf_matches(v), FP "add.refused: a refused insert leaves the vector unchanged");
#if VF_OP == OP_GROW2
        uint8_t *b2 = vf_caller_buf(vfin.val2);
        bool ok2 = v->addat(v, vfin.index2, b2);
        vf_scribble_free(b2);
        long pos2 = vf_norm(vfin.index2, gn);
        bool valid2 = pos2 >= 0 && pos2 <= (long)gn;
        VF_ASSERT(ok2 == valid2, FP "add2.accept: second insert accepted exactly for valid indexes");
        if (ok2) {
            for (long i = (long)gn; i > pos2; i--) memcpy(g[i], g[i - 1], OS);
            memcpy(g[pos2], vfin.val2, OS);
            gn++;
        }
        VF_ASSERT(vf_matches(v), FP "add2.effect: contents after growth followed by another insert");
#endif
    }
#elif VF_OP == OP_GET
    {
        VF_ASSUME(vfin.variant <= 2);
        bool nm = vfin.newmem & 1;
        void *p;
        CALL(p = vfin.variant == 1 ? v->getfirst(v, nm) : vfin.variant == 2 ? v->getlast(v, nm) : v->getat(v, vfin.index, nm));
        long pos = vfin.variant == 1 ? 0 : vfin.variant == 2 ? (long)n0 - 1 : vf_norm(vfin.index, n0);
        bool valid = pos >= 0 && pos < (long)n0;
        if (p != NULL) {
            VF_ASSERT(valid, FP "get.range: get at an out-of-range index is refused");
            VF_ASSERT(vf_elem_eq(p, g[pos]), FP "get.value: get returns the element at exactly that position");
            if (nm) {
                VF_ASSERT(!VF_SAME_OBJECT(p, v->data), "C12.vector.get.copy: get with the copy flag returns an independent allocation");
                ret_copy = p;
            }
            VF_COVER("get-ok");
        } else {
            VF_ASSERT(!valid || vf_alloc_failed, FP "get.accept: get at a valid index succeeds");
        }
        VF_ASSERT(vf_matches(v), FP "get.pure: get does not modify the vector");
    }
#elif VF_OP == OP_SET
    {
        VF_ASSUME(vfin.variant <= 2);
        uint8_t *b = vf_caller_buf(vfin.val);
        bool ok;
        CALL(ok = vfin.variant == 1 ? v->setfirst(v, b) : vfin.variant == 2 ? v->setlast(v, b) : v->setat(v, vfin.index, b));
        vf_scribble_free(b);
        long pos = vfin.variant == 1 ? 0 : vfin.variant == 2 ? (long)n0 - 1 : vf_norm(vfin.index, n0);
        bool valid = pos >= 0 && pos < (long)n0;
        VF_ASSERT(ok == valid, FP "set.accept: set succeeds exactly for valid indexes");
        if (ok) memcpy(g[pos], vfin.val, OS);
        VF_ASSERT(vf_matches(v), FP "set.effect: set replaces exactly that element (refused set changes nothing)");
    }
#elif VF_OP == OP_POP
    {
        VF_ASSUME(vfin.variant <= 2);
        void *p;
        CALL(p = vfin.variant == 1 ? v->popfirst(v) : vfin.variant == 2 ? v->poplast(v) : v->popat(v, vfin.index));
        long pos = vfin.variant == 1 ? 0 : vfin.variant == 2 ? (long)n0 - 1 : vf_norm(vfin.index, n0);
        bool valid = pos >= 0 && pos < (long)n0;
        if (p != NULL) {
            VF_ASSERT(valid, FP "pop.range: pop at an out-of-range index is refused");
            VF_ASSERT(vf_elem_eq(p, g[pos]), FP "pop.value: pop returns the element at exactly that position");
            VF_ASSERT(!VF_SAME_OBJECT(p, v->data), "C12.vector.pop.copy: pop returns an independent allocation");
            for (long i = pos; i + 1 < (long)gn; i++) memcpy(g[i], g[i + 1], OS);
            gn--;
            ret_copy = p;
            VF_COVER("pop-ok");
        } else {
            VF_ASSERT(!valid || vf_alloc_failed, FP "pop.accept: pop at a valid index succeeds");
        }
        VF_ASSERT(vf_matches(v), FP "pop.effect: pop removes exactly that element and shifts the rest (refused pop changes nothing)");
    }
#elif VF_OP == OP_REMOVE
    {
        VF_ASSUME(vfin.variant <= 2);
        bool ok;
        CALL(ok = vfin.variant == 1 ? v->removefirst(v) : vfin.variant == 2 ? v->removelast(v) : v->removeat(v, vfin.index));
        long pos = vfin.variant == 1 ? 0 : vfin.variant == 2 ? (long)n0 - 1 : vf_norm(vfin.index, n0);
        bool valid = pos >= 0 && pos < (long)n0;
        VF_ASSERT(ok == valid, FP "remove.accept: remove succeeds exactly for valid indexes");
        if (ok) {
            for (long i = pos; i + 1 < (long)gn; i++) memcpy(g[i], g[i + 1], OS);
            gn--;
        }
        VF_ASSERT(vf_matches(v), FP "remove.effect: remove deletes exactly that element and shifts the rest (refused remove changes nothing)");
    }
#elif VF_OP == OP_REVERSE
    {
        CALL(v->reverse(v));
        if (!vf_alloc_failed) {
            for (size_t i = 0, j = gn; i + 1 < j; i++, j--) {
                uint8_t t[OS];
                memcpy(t, g[i], OS); memcpy(g[i], g[j - 1], OS); memcpy(g[j - 1], t, OS);
            }
        }
        VF_ASSERT(vf_matches(v), FP "reverse: reversal yields the exact reverse order");
    }
#elif VF_OP == OP_RESIZE
    {
        VF_ASSUME(vfin.newmax <= VF_MAX + 3);
        bool ok;
        CALL(ok = v->resize(v, vfin.newmax));
        if (ok) {
            if (gn > vfin.newmax) gn = vfin.newmax;
            VF_ASSERT(v->max == vfin.newmax, FP "resize.cap: capacity is the requested one");
        } else {
            VF_ASSERT(vf_alloc_failed, FP "resize.ok: resize succeeds when memory is available");
        }
        VF_ASSERT(vf_matches(v), FP "resize.keep: a capacity change never alters surviving elements");
        /* the vector remains fully usable after being resized to any capacity, including zero */
        uint8_t *b = vf_caller_buf(vfin.val);
        bool ok2 = v->addlast(v, b);
        vf_scribble_free(b);
        VF_ASSERT(ok2, FP "resize.usable.add: append works after any resize");
        memcpy(g[gn], vfin.val, OS);
        gn++;
        VF_ASSERT(vf_matches(v), FP "resize.usable.contents: contents are exact after resize + append");
        void *p = v->getlast(v, false);
        VF_ASSERT(p != NULL && vf_elem_eq(p, vfin.val), FP "resize.usable.get: appended element can be read back");
    }
#elif VF_OP == OP_CLEAR
    {
        CALL(v->clear(v));
        gn = 0;
        VF_ASSERT(vf_matches(v) && v->size(v) == 0, FP "clear: clear empties the vector");
        uint8_t *b = vf_caller_buf(vfin.val);
        bool ok2 = v->addlast(v, b);
        vf_scribble_free(b);
        memcpy(g[gn], vfin.val, OS);
        gn++;
        VF_ASSERT(ok2 && vf_matches(v), FP "clear.usable: vector usable after clear");
    }
#elif VF_OP == OP_TOARRAY
    {
        size_t sz = 12345;
        void *a;
        CALL(a = v->toarray(v, &sz));
        if (a != NULL) {
            VF_ASSERT(n0 > 0 && sz == n0, FP "toarray.size: flattening reports the element count");
            for (size_t i = 0; i < VF_MAX; i++)
                if (i < n0) VF_ASSERT(vf_elem_eq((uint8_t *)a + i * OS, g[i]), FP "toarray.bytes: flattening reflects the exact contents");
            VF_ASSERT(!VF_SAME_OBJECT(a, v->data), "C12.vector.toarray.copy: toarray returns an independent allocation");
            ret_copy = a;
        } else {
            VF_ASSERT(n0 == 0 || vf_alloc_failed, FP "toarray.ok: flattening a non-empty vector succeeds");
            VF_ASSERT(n0 != 0 || sz == 0, FP "toarray.empty: empty vector reports size 0");
        }
        VF_ASSERT(vf_matches(v), FP "toarray.pure: toarray does not modify the vector");
    }
#elif VF_OP == OP_WALK
    {
        qvector_obj_t o;
        memset(&o, 0, sizeof(o));
        bool nm = vfin.newmem & 1;
        size_t k = 0;
        for (; k < VF_MAX + 1; k++) {
            bool more;
            CALL(more = v->getnext(v, &o, nm));
            if (!more) break;
            VF_ASSERT(k < n0 && vf_elem_eq(o.data, g[k]), FP "walk.order: walking yields the elements in index order");
            if (nm) {
                VF_ASSERT(!VF_SAME_OBJECT(o.data, v->data), "C12.vector.walk.copy: walk with the copy flag returns independent allocations");
                free(o.data);
            }
        }
        VF_ASSERT(k == n0 || vf_alloc_failed, FP "walk.count: walking yields every element exactly once and then ends");
        VF_ASSERT(vf_matches(v), FP "walk.pure: walking does not modify the vector");
    }
#elif VF_OP == OP_SIZE
    {
        VF_ASSERT(v->size(v) == n0, FP "size: size is the element count");
    }
#endif
    vf_alloc_active = 0;

    /* ---------- cross-cutting post-conditions ---------- */
    VF_ASSERT(vf_lock_depth == depth0, "C14.vector.lock: the operation returns with the container lock released");
#ifdef VF_ALLOCFAIL
    if (vf_alloc_failed) VF_COVER("alloc-failed");
    /* state after a reported failure is covered by the vf_matches assertions above (ghost updated only on success) */
    VF_ASSERT(v->num <= v->max && (v->max == 0 || v->data != NULL) && v->objsize == OS, "C15.vector.inv: representation invariant holds after allocation failure");
#endif
    VF_ASSERT(v->num <= v->max && v->objsize == OS, FP "inv: num <= max and element size unchanged");

    /* copies stay intact after the container is released (C12); nothing leaks (C11) */
    uint8_t keep[OS];
    if (ret_copy) memcpy(keep, ret_copy, OS);
    v->free(v);
    if (ret_copy) {
#if VF_OP != OP_TOARRAY
        VF_ASSERT(vf_elem_eq(ret_copy, keep), "C12.vector.copy.survives: a returned copy stays intact after the container is released");
#endif
        free(ret_copy);
    }
    VF_ASSERT(vf_live_blocks == live_base, "C11.vector.leak: after free() every block the container allocated has been released");
    VF_REACH("end");
#endif
}
#include "vf_main.h"
