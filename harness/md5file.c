/* C18 (file part): qhashmd5_file() of src/utilities/qhash.c over an in-memory file model.
 * open/fstat/lseek/read/close are replaced by the model below (macro renaming before the
 * real qhash.c is included); MD5Init/Update/Final are replaced by a recorder of the byte
 * stream fed, so the claim is: on success the bytes digested are exactly
 * file[offset, offset+nbytes) (to the end when nbytes==0); invalid ranges fail cleanly. */
#include "vf.h"
#include <stdio.h>
#include <fcntl.h>
#include <unistd.h>
#include <sys/types.h>
#include <sys/stat.h>
#define VF_FMAX 8

struct vf_input {
    uint8_t fsize;          /* file size, assumed <= VF_FMAX */
    uint8_t fc[VF_FMAX];    /* file content */
    int8_t offset, nbytes;  /* arguments (small range incl. negative) */
    uint8_t open_fails, fstat_fails, lseek_fails;
    uint8_t read_fail_at;   /* index of the read() call that fails (255 = none) */
    uint8_t chunk[VF_FMAX + 2]; /* short-read sizes chosen by the environment */
};
extern struct vf_input vfin;

static long vf_pos;
static unsigned vf_nreads;
static int vf_fault;
static int vf_open(const char *path, int flags, ...) { (void)path; (void)flags; if (vfin.open_fails) { vf_fault = 1; return -1; } vf_pos = 0; return 3; }
static int vf_fstat(int fd, struct stat *st) { (void)fd; if (vfin.fstat_fails) { vf_fault = 1; return -1; } st->st_size = vfin.fsize; return 0; }
static off_t vf_lseek(int fd, off_t off, int wh) { (void)fd; (void)wh; if (vfin.lseek_fails) { vf_fault = 1; return -1; } vf_pos = off; return off; }
static int vf_close(int fd) { (void)fd; return 0; }
static ssize_t vf_read(int fd, void *buf, size_t cnt) {
    (void)fd;
    unsigned k = vf_nreads++;
    if (k == vfin.read_fail_at) { vf_fault = 1; return -1; }
    long avail = (long)vfin.fsize - vf_pos;
    VF_ASSERT(avail > 0 && cnt > 0, "C18.file.noeof: no read is attempted beyond the validated byte range (a read at EOF would never make progress)");
    if (avail <= 0 || cnt == 0) return 0;
    size_t want = k < sizeof(vfin.chunk) ? vfin.chunk[k] : 1;
    if (want < 1) want = 1;
    if (want > cnt) want = cnt;
    if ((long)want > avail) want = (size_t)avail;
    for (size_t i = 0; i < want; i++) ((unsigned char *)buf)[i] = vfin.fc[vf_pos + i];
    vf_pos += want;
    return (ssize_t)want;
}
#define open vf_open
#define fstat vf_fstat
#define lseek vf_lseek
#define read vf_read
#define close vf_close
#include "utilities/qhash.c"
#undef open
#undef fstat
#undef lseek
#undef read
#undef close

/* recorder in place of the MD5 primitives */
static uint8_t vf_stream[VF_FMAX + 1];
static unsigned vf_slen;
static int vf_inited, vf_finaled, vf_overflow;
void MD5Init(MD5_CTX *c) { (void)c; vf_inited++; vf_slen = 0; }
void MD5Update(MD5_CTX *c, const unsigned char *in, unsigned int len) {
    (void)c;
    for (unsigned i = 0; i < len; i++) {
        if (vf_slen < VF_FMAX) vf_stream[vf_slen++] = in[i]; else vf_overflow = 1;
    }
}
void MD5Final(unsigned char d[16], MD5_CTX *c) { (void)c; vf_finaled++; for (int i = 0; i < 16; i++) d[i] = (unsigned char)(0xA0 + i); }

void vf_harness(void) {
    VF_ASSUME(vfin.fsize <= VF_FMAX);
    VF_ASSUME(vfin.offset >= -1 && vfin.offset <= VF_FMAX + 1 && vfin.nbytes >= -1 && vfin.nbytes <= VF_FMAX + 1);
    unsigned char dig[16];
    memset(dig, 0, sizeof(dig));
    long off = vfin.offset, nb = vfin.nbytes, fs = vfin.fsize;
    bool ok = qhashmd5_file("f", (off_t)off, (ssize_t)nb, dig);
    bool valid = off >= 0 && nb >= 0 && off + nb <= fs;
    if (ok) {
        long len = nb ? nb : fs - off;
        VF_ASSERT(valid, "C18.file.range: success only for a byte range inside the file");
        VF_ASSERT(vf_inited == 1 && vf_finaled == 1 && !vf_overflow && (long)vf_slen == len, "C18.file.len: exactly nbytes bytes (or the rest of the file) are digested");
        for (long i = 0; i < VF_FMAX; i++)
            if (i < len) VF_ASSERT(vf_stream[i] == vfin.fc[off + i], "C18.file.bytes: the bytes digested are file[offset, offset+nbytes)");
        VF_ASSERT(dig[0] == 0xA0 && dig[15] == 0xAF, "C18.file.out: digest is delivered to the caller");
        VF_COVER("file-ok");
    } else {
        VF_ASSERT(!valid || vf_fault, "C18.file.fail: a valid range fails only when the file system reports an error");
        VF_COVER("file-fail");
    }
    VF_REACH("end");
}
#include "vf_main.h"
