/* C16 / C17: the query-string parser qparse_queries() of src/utilities/qencode.c (result container: the
 * real list table of src/containers/qlisttbl.c; helpers _q_makeword, qstrtrim, qurl_decode, qurl_encode).
 *
 *   VF_MODE 0 (C16): the harness assembles  enc(n1)=enc(v1)[&enc(n2)=enc(v2)]  from VF_P pairs; name/value
 *       lengths VF_NL0, VF_VL0, VF_NL1, VF_VL1 are per-query constants (0..2), every byte is symbolic and
 *       non-NUL and is rendered by the real qurl_encode().  Claim: the parsed table holds exactly those
 *       pairs in order, *count is the number of pairs.  (Names are trimmed by the parser *before* they are
 *       decoded, and qurl_encode never emits a blank literally, so even blank-only names survive.)
 *   VF_MODE 1 (C17): query = arbitrary NUL-terminated string of VF_N symbolic non-NUL bytes in an exactly
 *       sized heap buffer, safety checks on: terminates, no out-of-bounds access, result table
 *       well-formed, everything released.
 *
 * Allocation sizes inside the parser depend on where the separators sit in the symbolic input; symbolic
 * allocation sizes are not tractable, so the allocator seen by the code under test is
 *   - C17: exact - a request of k bytes (1 <= k <= VF_N+1) returns one of VF_N+1 blocks of constant size k
 *          (driver-free case split inside the shim), so every over-read/over-write is still out of bounds;
 *   - C16: blocks of the constant size VF_CAP (requests above it fail the query).
 * sizeof() requests (table, node) stay exact in both modes.
 */
#include "vf.h"
#include "stubs.h"
#include "utilities/qhash.h"

#ifndef VF_MODE
#define VF_MODE 0
#endif
#ifndef VF_N
#define VF_N 3
#endif
#ifndef VF_P
#define VF_P 1
#endif
#ifndef VF_NL0
#define VF_NL0 1
#endif
#ifndef VF_VL0
#define VF_VL0 1
#endif
#ifndef VF_NL1
#define VF_NL1 0
#endif
#ifndef VF_VL1
#define VF_VL1 0
#endif
#define ML 2                                  /* longest name / value (bytes) */
/* longest assembled query of this shape (every byte %hh-escaped) + NUL */
#define QCAP (3 * (VF_NL0 + VF_VL0) + 1 + (VF_P > 1 ? 2 + 3 * (VF_NL1 + VF_VL1) : 0) + 1)
#define NQ (VF_N > 0 ? VF_N : 1)

struct vf_input {
    uint8_t name[2][ML], value[2][ML]; /* C16 payload */
    uint8_t q[NQ];                     /* C17 raw query */
    uint32_t htab[8];
};
extern struct vf_input vfin;

/* hash stub: some function of the name bytes (the parser's table is a plain multimap that only stores the hash) */
uint32_t vf_hash(const void *data, size_t nbytes) {
    const unsigned char *p = (const unsigned char *)data;
    unsigned s = (unsigned)nbytes;
    for (size_t i = 0; i < nbytes; i++) s += p[i];
    return vfin.htab[s & 7];
}
#define qhashmurmur3_32 vf_hash

#if VF_MODE == 1
#define VF_MAXREQ (VF_N + 1)
static void *vf_malloc_var(size_t n) {
    void *p = NULL;
    VF_ASSERT(n >= 1 && n <= VF_MAXREQ, "C17.harness.req: every variable-size allocation request of the parser is between 1 and strlen(query)+1 bytes");
#define VF_SW(k) if (VF_MAXREQ >= k && n == k) p = vf_malloc(k);
    VF_SW(1) VF_SW(2) VF_SW(3) VF_SW(4) VF_SW(5) VF_SW(6) VF_SW(7) VF_SW(8) VF_SW(9) VF_SW(10)
    return p;
}
#else
#define VF_CAP (QCAP + 1)
static void *vf_malloc_var(size_t n) {
    VF_ASSERT(n <= VF_CAP, "C16.harness.cap: every allocation request of the parser fits the modelled block size");
    return vf_malloc(VF_CAP);
}
#endif
static char *vf_strdup_var(const char *s) {
    size_t l = 0;
    while (s[l]) l++;
    char *p = vf_malloc_var(l + 1);
    if (p == NULL) return NULL;
    for (size_t i = 0; i <= l; i++) p[i] = s[i];
    return p;
}
#undef malloc
#define malloc(n) (__builtin_constant_p(n) ? vf_malloc(n) : vf_malloc_var(n))
#undef strdup
#define strdup vf_strdup_var

#include "containers/qlisttbl.c"
#include "utilities/qencode.c"
#include "internal/qinternal.c"
#include "utilities/qstring.c"

#if VF_MODE == 0
static const size_t vf_nl[2] = {VF_NL0, VF_NL1}, vf_vl[2] = {VF_VL0, VF_VL1};
static char *vf_q;
static size_t vf_qn;
static void vf_append_enc(const uint8_t *b, size_t n) {
    if (n == 0) return;
    uint8_t *src = vf_malloc(n); /* caller data in an exactly sized heap object */
    VF_ASSUME(src != NULL);
    for (size_t i = 0; i < ML; i++) if (i < n) { VF_ASSUME(b[i] != 0); src[i] = b[i]; }
    char *e = qurl_encode(src, n);
    VF_ASSERT(e != NULL, "C16.query.enc: encoder returns a string");
    for (size_t i = 0; i < 3 * ML && e[i]; i++) vf_q[vf_qn++] = e[i];
    free(e);
    free(src);
}
#endif

void vf_harness(void) {
    const long live_base = vf_live_blocks;
#if VF_MODE == 0
    vf_q = vf_malloc(QCAP);
    VF_ASSUME(vf_q != NULL);
    vf_qn = 0;
    for (size_t p = 0; p < VF_P; p++) {
        if (p > 0) vf_q[vf_qn++] = '&';
        vf_append_enc(vfin.name[p], vf_nl[p]);
        vf_q[vf_qn++] = '=';
        vf_append_enc(vfin.value[p], vf_vl[p]);
    }
    vf_q[vf_qn] = 0;
    int count = -7;
    qlisttbl_t *tbl = qparse_queries(NULL, vf_q, '=', '&', &count);
    VF_ASSERT(tbl != NULL, "C16.query.tbl: the parser returns a table");
    VF_ASSERT(count == VF_P, "C16.query.count: *count is the number of pairs in the query string");
    VF_ASSERT(tbl->num == VF_P, "C16.query.num: the table holds one entry per pair");
    qlisttbl_obj_t *o = tbl->first;
    for (size_t p = 0; p < VF_P; p++) {
        VF_ASSERT(o != NULL && o->name != NULL && o->data != NULL, "C16.query.entry: one entry per pair, in order");
        if (o == NULL) break;
        bool nameok = true, valok = true;
        for (size_t i = 0; i < ML; i++) {
            if (i < vf_nl[p] && (uint8_t)o->name[i] != vfin.name[p][i]) nameok = false;
            if (i < vf_vl[p] && ((uint8_t *)o->data)[i] != vfin.value[p][i]) valok = false;
        }
        VF_ASSERT(nameok && o->name[vf_nl[p]] == 0, "C16.query.name: the entry's name is exactly the name that was encoded");
        VF_ASSERT(valok && ((char *)o->data)[vf_vl[p]] == 0 && o->size == vf_vl[p] + 1, "C16.query.value: the entry's value is exactly the value that was encoded (string with terminator, size = length + 1)");
        o = o->next;
    }
    VF_ASSERT(o == NULL, "C16.query.nomore: no further entries");
    tbl->free(tbl);
    vf_free(vf_q);
    VF_ASSERT(vf_live_blocks == live_base, "C16.query.released: parser and table release everything they allocated");
    VF_REACH("end");
#else
    const size_t n = VF_N;
    char *q = vf_malloc(n + 1);
    VF_ASSUME(q != NULL);
    for (size_t i = 0; i < n; i++) {
        VF_ASSUME(vfin.q[i] != 0); /* the string has length exactly n: the buffer is exactly strlen+1 bytes */
        q[i] = (char)vfin.q[i];
    }
    q[n] = 0;
    int count = -7;
    qlisttbl_t *tbl = qparse_queries(NULL, q, '=', '&', &count);
    VF_ASSERT(tbl != NULL, "C17.query.result: the parser delivers a table for every input");
    VF_ASSERT(count >= 0 && (size_t)count <= n && tbl->num == (size_t)count, "C17.query.count: *count is the number of entries stored (at most one per input byte)");
    for (size_t i = 0; i < n; i++)
        VF_ASSERT(q[i] == (char)vfin.q[i], "C17.query.input: the caller's query string is not modified");
    /* result table well-formed: links, terminated names and values, sizes */
    qlisttbl_obj_t *o = tbl->first, *prev = NULL;
    size_t seen = 0;
    for (size_t i = 0; i < NQ && o != NULL; i++) {
        VF_ASSERT(o->prev == prev && o->name != NULL && o->data != NULL && o->size >= 1, "C17.query.wf: result entries are linked consistently and own a name and a value");
        size_t nl = 0, vl = 0;
        while (o->name[nl]) nl++;
        while (((char *)o->data)[vl]) vl++;
        VF_ASSERT(nl <= n && vl + 1 == o->size, "C17.query.wf.str: names and values are terminated strings, size = length + 1");
        prev = o;
        o = o->next;
        seen++;
    }
    VF_ASSERT(o == NULL && seen == tbl->num && tbl->last == prev, "C17.query.wf.end: the list has exactly num entries and last points at the final one");
    tbl->free(tbl);
    vf_free(q);
    VF_ASSERT(vf_live_blocks == live_base, "C17.query.released: parser and table release everything they allocated");
    VF_REACH("end");
#endif
}
#include "vf_main.h"
