/* strf.c - the printf-style entry points that funnel through DYNAMIC_VSPRINTF (src/internal/qinternal.h):
 *   VF_KIND 1  qgrow_addstrf(grow, "%s", s)            then tostring()/toarray()/size()/datasize()      (C09)
 *   VF_KIND 2  qstrdupf("%s", s)                                                                         (C19)
 *   VF_KIND 3  qhashtbl_putstrf(tbl, "k", "%s", s)      then getstr()/size()                             (C05)
 *   VF_KIND 4  qtreetbl_putstrf(tbl, "k", "%s", s)      then getstr()/size()                             (C01)
 *   VF_KIND 5  qlisttbl_putstrf(tbl, "k", "%s", s)      then getstr()/size()                             (C08)
 * from the freshly constructed container.  Formatting itself is NOT the subject: the only format is "%s" and vsnprintf is
 * replaced (CBMC build only) by a model of exactly that conversion with the C99 contract (writes at most size-1 bytes + NUL,
 * returns the untruncated length).  The subject is the buffer management around it: first buffer size, the grow-and-retry
 * loop, the fit test, what is handed to the container and the release of the temporary.
 * The argument string has exactly VF_SLEN bytes (constant per query: it is an allocation size), every byte symbolic non-NUL.
 * The driver derives the lengths from the integer constants found in the function's source text and in the macro
 * (c-1, c, c+1 for each constant c; 2c-1.. in the thorough tier), regenerated from /repo on every run.
 */
#include "vf.h"
#include "stubs.h"

#ifndef VF_KIND
#define VF_KIND 1
#endif
#ifndef VF_SLEN
#define VF_SLEN 3
#endif

#ifdef VF_CBMC
static int vf_vsnprintf_calls;
static int vf_vsnprintf(char *buf, size_t size, const char *fmt, va_list ap) {
    VF_ASSERT(fmt != NULL && fmt[0] == '%' && fmt[1] == 's' && fmt[2] == '\0', "vf.model: the vsnprintf model only knows the format \"%s\"");
    const char *s = va_arg(ap, const char *);
    vf_vsnprintf_calls++;
    if (size > 0) {
        VF_ASSERT(buf != NULL, "C11.strf.vsnprintf.null: vsnprintf is not handed a NULL buffer with a non-zero size");
        const size_t m = VF_SLEN < size - 1 ? VF_SLEN : size - 1;
        if (m > 0) memcpy(buf, s, m);
        buf[m] = '\0';
    }
    return (int)VF_SLEN;
}
#define vsnprintf vf_vsnprintf
#endif

struct vf_input {
    uint8_t s[VF_SLEN + 1];
    uint32_t hash;
};
extern struct vf_input vfin;
/* the key hash is irrelevant for a one-key table: any value (qhashmurmur3_32 itself is the subject of C18) */
static uint32_t vf_hash(const void *data, size_t nbytes) { (void)data; (void)nbytes; return vfin.hash; }

#if VF_KIND == 1
#define VF_CN "grow"
#define FP "C09.grow.addstrf."
#include "containers/qlist.c"
#include "containers/qgrow.c"
#elif VF_KIND == 2
#define FP "C19.strdupf."
#include "utilities/qstring.c"
#elif VF_KIND == 3
#define FP "C05.ht.putstrf."
#define qhashmurmur3_32 vf_hash
#include "containers/qhashtbl.c"
#elif VF_KIND == 4
#define FP "C01.tree.putstrf."
#include "utilities/qstring.c"
#include "containers/qtreetbl.c"
#elif VF_KIND == 5
#define FP "C08.lt.putstrf."
#define qhashmurmur3_32 vf_hash
#include "containers/qlisttbl.c"
#endif

#define SAME(got) do { \
        bool same_ = true; \
        for (size_t k = 0; k < VF_SLEN; k++) if (((const uint8_t *)(got))[k] != want[k]) same_ = false; \
        VF_ASSERT(same_, FP "bytes: the stored text equals the formatted text byte for byte"); \
    } while (0)

void vf_harness(void) {
    const long live_base = vf_live_blocks;
    /* caller's string in an exactly sized block */
    char *s = (char *)malloc(VF_SLEN + 1);
    const uint8_t *want = vfin.s;
#if VF_SLEN > 64
    /* long arguments: the first 2 and the last 8 bytes stay symbolic, the middle is a fixed position-dependent pattern
     * (a fully symbolic 1 KiB argument gave no verdict in 300 s); what the long lengths probe is the buffer management */
    for (size_t k = 2; k + 8 < VF_SLEN; k++) vfin.s[k] = (uint8_t)('a' + k % 23);
#endif
    /* every byte ranges over all non-NUL values (0 is mapped to 1 rather than assumed away, so that a replay with missing bytes stays valid) */
    for (size_t k = 0; k < VF_SLEN; k++) if (vfin.s[k] == 0) vfin.s[k] = 1;
    if (VF_SLEN > 0) memcpy(s, vfin.s, VF_SLEN);
    s[VF_SLEN] = '\0';
    errno = 0;

#if VF_KIND == 1
    qgrow_t *g = qgrow(0);
    VF_ASSUME(g != NULL);
    bool ok = g->addstrf(g, "%s", s);
    if (VF_SLEN > 0) memset(s, 'X', VF_SLEN); /* C12: the caller's buffer is not referenced afterwards */
    free(s);
    if (VF_SLEN == 0) {
        /* same rule as addstr(""): a zero-length piece is refused and nothing is stored */
        VF_ASSERT(!ok, FP "empty: an empty formatted piece is refused like addstr(\"\")");
        VF_ASSERT(g->size(g) == 0 && g->datasize(g) == 0, FP "empty.unchanged: a refused piece leaves the buffer empty");
    } else {
        VF_ASSERT(ok, FP "accept: a non-empty formatted piece is added");
        VF_ASSERT(g->size(g) == 1, FP "size: exactly one piece was added");
        VF_ASSERT(g->datasize(g) == VF_SLEN, FP "datasize: the piece has exactly the formatted length (no terminator, nothing cut off)");
        size_t sz = 12345;
        char *str = g->tostring(g);
        VF_ASSERT(str != NULL, FP "tostring: the concatenation is returned");
        if (str != NULL) {
            SAME(str);
            VF_ASSERT(str[VF_SLEN] == '\0', FP "tostring.nul: the concatenation is terminated right behind the text");
            free(str);
        }
        void *arr = g->toarray(g, &sz);
        VF_ASSERT(arr != NULL && sz == VF_SLEN, FP "toarray: the flattened buffer has exactly the formatted length");
        if (arr != NULL && sz == VF_SLEN) SAME(arr);
        free(arr);
    }
    g->free(g);
#elif VF_KIND == 2
    char *d = qstrdupf("%s", s);
    if (VF_SLEN > 0) memset(s, 'X', VF_SLEN);
    free(s);
    VF_ASSERT(d != NULL, FP "nonnull: the formatted copy is returned");
    if (d != NULL) {
        SAME(d);
        VF_ASSERT(d[VF_SLEN] == '\0', FP "nul: the copy is terminated right behind the text");
        free(d);
    }
#elif VF_KIND == 3
    qhashtbl_t *t = qhashtbl(3, 0);
    VF_ASSUME(t != NULL);
    bool ok = t->putstrf(t, "k", "%s", s);
    if (VF_SLEN > 0) memset(s, 'X', VF_SLEN);
    free(s);
    VF_ASSERT(ok, FP "accept: the formatted value is stored");
    VF_ASSERT(t->size(t) == 1, FP "size: exactly one key");
    char *d = t->getstr(t, "k", false);
    VF_ASSERT(d != NULL, FP "get: the key is found");
    if (d != NULL) { SAME(d); VF_ASSERT(d[VF_SLEN] == '\0', FP "nul: the stored string is terminated right behind the text"); }
    t->free(t);
#elif VF_KIND == 4
    qtreetbl_t *t = qtreetbl(0);
    VF_ASSUME(t != NULL);
    bool ok = t->putstrf(t, "k", "%s", s);
    if (VF_SLEN > 0) memset(s, 'X', VF_SLEN);
    free(s);
    VF_ASSERT(ok, FP "accept: the formatted value is stored");
    VF_ASSERT(t->size(t) == 1, FP "size: exactly one key");
    char *d = t->getstr(t, "k", false);
    VF_ASSERT(d != NULL, FP "get: the key is found");
    if (d != NULL) { SAME(d); VF_ASSERT(d[VF_SLEN] == '\0', FP "nul: the stored string is terminated right behind the text"); }
    t->free(t);
#elif VF_KIND == 5
    qlisttbl_t *t = qlisttbl(0);
    VF_ASSUME(t != NULL);
    bool ok = t->putstrf(t, "k", "%s", s);
    if (VF_SLEN > 0) memset(s, 'X', VF_SLEN);
    free(s);
    VF_ASSERT(ok, FP "accept: the formatted value is stored");
    VF_ASSERT(t->size(t) == 1, FP "size: exactly one entry");
    char *d = t->getstr(t, "k", false);
    VF_ASSERT(d != NULL, FP "get: the key is found");
    if (d != NULL) { SAME(d); VF_ASSERT(d[VF_SLEN] == '\0', FP "nul: the stored string is terminated right behind the text"); }
    t->free(t);
#endif
    VF_ASSERT(vf_live_blocks == live_base, "C11.strf.leak: the temporary formatting buffers and the container are released (allocation ledger balanced)");
    VF_REACH("strf.end");
}
#include "vf_main.h"
