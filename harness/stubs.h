/* stubs.h - environment model shared by the container harnesses.
 * Include AFTER vf.h and BEFORE the real qlibc .c files.
 *
 *  - allocator shim with a symbolic failure schedule: malloc/calloc/realloc/strdup/free
 *    of the qlibc translation units are renamed (macro) to vf_*; the i-th allocation
 *    made while vf_alloc_active is set fails when bit i of vf_failmask is set, or when
 *    i >= vf_fail_from (all-subsequent-fail mode).
 *  - lock model: pthread_mutex_* used by Q_MUTEX_* are renamed to vf_mutex_*; trylock
 *    always succeeds for the running logical thread and counts the depth; unlock at
 *    depth 0 returns EPERM and changes nothing (POSIX recursive mutex semantics).
 *    Harnesses may install vf_sched_hook to run another logical thread's call at the
 *    outermost acquire / release (interleaving injection, C13).
 */
#ifndef VF_STUBS_H
#define VF_STUBS_H
#include <stdio.h>
#include <stdlib.h>
#include <string.h>
#include <strings.h>
#include <stdarg.h>
#include <stdbool.h>
#include <stdint.h>
#include <errno.h>
#include <unistd.h>
#include <pthread.h>
#include <ctype.h>
#include <assert.h>
#include <limits.h>
#include <inttypes.h>
#include <sys/types.h>
#include <sys/stat.h>
#include <sys/time.h>
#include <fcntl.h>
#include <time.h>

/* ---------------- allocator ---------------- */
static int vf_alloc_active;        /* schedule applies only while set */
static unsigned vf_alloc_count;    /* allocations requested while active */
static unsigned vf_failmask;       /* bit i => i-th allocation fails */
static int vf_fail_from = -1;      /* >=0: every allocation with index >= this fails */
static int vf_alloc_failed;        /* some allocation was made to fail */
static long vf_live_blocks;        /* ledger: allocations - frees through the shim */

static int vf_should_fail(void) {
    if (!vf_alloc_active) return 0;
    unsigned k = vf_alloc_count++;
    if ((k < 32 && ((vf_failmask >> k) & 1u)) || (vf_fail_from >= 0 && k >= (unsigned)vf_fail_from)) {
        vf_alloc_failed = 1;
        return 1;
    }
    return 0;
}
static void *vf_malloc(size_t n) {
    if (vf_should_fail()) { errno = ENOMEM; return NULL; }
    void *p = malloc(n);
    VF_ASSUME(p != NULL);
    vf_live_blocks++;
    return p;
}
static void *vf_calloc(size_t a, size_t b) {
    if (vf_should_fail()) { errno = ENOMEM; return NULL; }
    void *p = calloc(a, b);
    VF_ASSUME(p != NULL);
    vf_live_blocks++;
    return p;
}
static void *vf_realloc(void *old, size_t n) {
    if (vf_should_fail()) { errno = ENOMEM; return NULL; }
    if (n == 0) {
        /* glibc semantics (what the real build runs on): realloc(p, 0) frees p and returns NULL */
        if (old != NULL) { free(old); vf_live_blocks--; }
        return NULL;
    }
#ifdef VF_CBMC
    /* CBMC's library model: new object, copy min(old size, n) bytes, free old */
    void *p = realloc(old, n);
    if (n != 0) VF_ASSUME(p != NULL);
    if (old == NULL && p != NULL) vf_live_blocks++;
    if (old != NULL && n == 0) vf_live_blocks--;
    return p;
#else
    void *p = realloc(old, n);
    if (p == NULL && n != 0) { fprintf(stderr, "native realloc failed\n"); exit(77); }
    if (old == NULL && p != NULL) vf_live_blocks++;
    if (old != NULL && n == 0) vf_live_blocks--;
    return p;
#endif
}
static char *vf_strdup(const char *s) {
    if (vf_should_fail()) { errno = ENOMEM; return NULL; }
    size_t n = strlen(s) + 1;
    char *p = malloc(n);
    VF_ASSUME(p != NULL);
    for (size_t i = 0; i < n; i++) p[i] = s[i];
    vf_live_blocks++;
    return p;
}
static char *vf_strndup(const char *s, size_t n) {
    if (vf_should_fail()) { errno = ENOMEM; return NULL; }
    size_t l = 0;
    while (l < n && s[l] != '\0') l++;
    char *p = malloc(l + 1);
    VF_ASSUME(p != NULL);
    for (size_t i = 0; i < l; i++) p[i] = s[i];
    p[l] = '\0';
    vf_live_blocks++;
    return p;
}
static void vf_free(void *p) {
    if (p != NULL) vf_live_blocks--;
    free(p);
}

/* ---------------- lock model ---------------- */
#define VF_SCHED_ACQUIRE 1
#define VF_SCHED_RELEASE 2
static int vf_lock_depth;          /* successful trylocks - successful unlocks */
static unsigned vf_lock_acquires, vf_lock_releases, vf_unlock_eperm;
static void (*vf_sched_hook)(int what); /* called at outermost acquire (before) / release (after) */
static int vf_in_hook;

static int vf_mutex_trylock(pthread_mutex_t *m) {
    (void)m;
    if (vf_lock_depth == 0 && vf_sched_hook && !vf_in_hook) { vf_in_hook = 1; vf_sched_hook(VF_SCHED_ACQUIRE); vf_in_hook = 0; }
    vf_lock_depth++;
    vf_lock_acquires++;
    return 0;
}
static int vf_mutex_unlock(pthread_mutex_t *m) {
    (void)m;
    /* an unlock with no matching lock: had the caller entered holding the lock (the documented lock(); walk; unlock()
     * pattern) it would now return one level lower than it entered - the code never reads the depth, so this is the same
     * path.  The only legitimate unmatched unlock (forced unlock after MAX_MUTEX_LOCK_WAIT failed trylocks) cannot occur
     * here because the model's trylock always succeeds. */
    VF_ASSERT(vf_lock_depth > 0, "C14.lock.overrelease: no operation releases the container lock more often than it acquired it");
    if (vf_lock_depth == 0) { vf_unlock_eperm++; return EPERM; }
    vf_lock_depth--;
    vf_lock_releases++;
    if (vf_lock_depth == 0 && vf_sched_hook && !vf_in_hook) { vf_in_hook = 1; vf_sched_hook(VF_SCHED_RELEASE); vf_in_hook = 0; }
    return 0;
}
static int vf_mutex_init(pthread_mutex_t *m, const pthread_mutexattr_t *a) {
    (void)a;
    VF_ASSERT(m != NULL, "C15.mutex.init.null: pthread_mutex_init is never handed a NULL mutex (mutex allocation failure must be handled)");
    return 0;
}
static int vf_mutex_destroy(pthread_mutex_t *m) { (void)m; return 0; }
static int vf_mutexattr_any(pthread_mutexattr_t *a) { (void)a; return 0; }
static int vf_mutexattr_settype(pthread_mutexattr_t *a, int t) { (void)a; (void)t; return 0; }
static pthread_t vf_self(void) { return (pthread_t)1; }
static int vf_usleep(unsigned us) { (void)us; return 0; }

#define malloc vf_malloc
#define calloc vf_calloc
#define realloc vf_realloc
#undef strdup
#define strdup vf_strdup
#undef strndup
#define strndup vf_strndup
#define free vf_free
#define pthread_mutex_trylock vf_mutex_trylock
#define pthread_mutex_unlock vf_mutex_unlock
#define pthread_mutex_init vf_mutex_init
#define pthread_mutex_destroy vf_mutex_destroy
#define pthread_mutexattr_init vf_mutexattr_any
#define pthread_mutexattr_destroy vf_mutexattr_any
#define pthread_mutexattr_settype vf_mutexattr_settype
#define pthread_self vf_self
#undef pthread_equal
#define pthread_equal(a, b) ((a) == (b))
#define usleep vf_usleep

#endif
