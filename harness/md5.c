/* C18 (MD5 part): src/internal/md5/md5c.c + qhashmd5() of src/utilities/qhash.c.
 *  VF_MODE 1: MD5Transform == RFC 1321 compression function for ARBITRARY state and block.
 *  VF_MODE 2: init/update/pad/final logic for a message of VF_N symbolic bytes with the compression
 *             function replaced ON BOTH SIDES by the same logging stub (goto-instrument --replace-calls
 *             MD5Transform:vf_md5_T): the sequence of 64-byte blocks fed and the digest must equal the
 *             RFC 1321 padding of the message folded through the stub.
 *  VF_MODE 3: end-to-end qhashmd5 == reference MD5 (cross-check, few lengths).
 *  VF_MODE 4: as mode 2, but the message is fed in TWO MD5Update calls (first VF_A bytes, then the rest) the way
 *             qhashmd5_file streams a file: buffering of a partial block across calls. */
#include "vf.h"
#include <stdio.h>
#include <sys/types.h>
#include "md5/md5c.c"
#include "utilities/qhash.c"
#include "md5ref.h"
#ifndef VF_N
#define VF_N 3
#endif
#define NBLK ((VF_N + 72) / 64)

struct vf_input {
    uint32_t st[4];
    uint8_t blk[64];
    uint8_t msg[VF_N];
};
extern struct vf_input vfin;

/* logging stub compression function (mode 2) */
static uint8_t vf_log[NBLK + 1][64];
static unsigned vf_ncalls;
static uint32_t vf_first_state[4];
void vf_md5_T(uint32_t st[4], const unsigned char blk[64]) {
    if (vf_ncalls == 0) for (int i = 0; i < 4; i++) vf_first_state[i] = st[i];
    if (vf_ncalls <= NBLK) for (int i = 0; i < 64; i++) vf_log[vf_ncalls][i] = blk[i];
    vf_ncalls++;
    /* cheap mixing, sensitive to order, state and every block word */
    for (int i = 0; i < 4; i++) {
        uint32_t w = ref_md5_le32(blk + 16 * i) ^ ref_md5_le32(blk + 16 * i + 4) ^ ref_md5_le32(blk + 16 * i + 8) ^ ref_md5_le32(blk + 16 * i + 12);
        st[i] = ((st[i] << 1) | (st[i] >> 31)) ^ w ^ st[(i + 1) & 3];
    }
}
static unsigned ref_ncalls;
static void ref_T_logged(uint32_t st[4], const uint8_t blk[64]) {
    for (int i = 0; i < 64; i++)
        VF_ASSERT(ref_ncalls <= NBLK && vf_log[ref_ncalls][i] == blk[i], "C18.md5.blocks: blocks fed to the compression function are the RFC 1321 padded message, in order");
    ref_ncalls++;
    uint32_t tmp_calls = vf_ncalls; uint32_t fs[4]; for (int i = 0; i < 4; i++) fs[i] = vf_first_state[i];
    vf_md5_T(st, blk);
    vf_ncalls = tmp_calls; for (int i = 0; i < 4; i++) vf_first_state[i] = fs[i];
}

void vf_harness(void) {
#if VF_MODE == 1
    uint32_t a[4], b[4];
    for (int i = 0; i < 4; i++) a[i] = b[i] = vfin.st[i];
    MD5Transform(a, vfin.blk);
    ref_md5_compress(b, vfin.blk);
    VF_ASSERT(a[0] == b[0] && a[1] == b[1] && a[2] == b[2] && a[3] == b[3], "C18.md5.transform: MD5Transform equals the RFC 1321 compression function");
    VF_REACH("end");
#else
    const size_t n = VF_N;
    uint8_t *buf = malloc(n);
    VF_ASSUME(buf != NULL);
    for (size_t i = 0; i < n; i++) buf[i] = vfin.msg[i];
    uint8_t got[16], want[16];
    uint8_t scratch[VF_N + 72 + 64];
#if VF_MODE == 4
    {
        MD5_CTX ctx;
        MD5Init(&ctx);
        MD5Update(&ctx, buf, VF_A);
        MD5Update(&ctx, buf + VF_A, (unsigned int)(n - VF_A));
        MD5Final(got, &ctx);
    }
#else
    bool ok = qhashmd5(buf, n, got);
    VF_ASSERT(ok, "C18.md5.ok: qhashmd5 succeeds on valid arguments");
#endif
#if VF_MODE == 2 || VF_MODE == 4
    ref_md5(vfin.msg, n, want, ref_T_logged, scratch);
    VF_ASSERT(vf_ncalls == ref_ncalls && ref_ncalls == NBLK, "C18.md5.nblocks: number of compression calls = padded length / 64");
    VF_ASSERT(vf_first_state[0] == 0x67452301u && vf_first_state[1] == 0xefcdab89u && vf_first_state[2] == 0x98badcfeu && vf_first_state[3] == 0x10325476u,
              "C18.md5.init: chaining starts from the RFC 1321 initial state");
#else
    ref_md5(vfin.msg, n, want, ref_md5_compress, scratch);
#endif
    for (int i = 0; i < 16; i++) VF_ASSERT(got[i] == want[i], "C18.md5.digest: digest equals reference MD5 (little-endian state)");
    free(buf);
    VF_REACH("end");
#endif
}
#include "vf_main.h"
