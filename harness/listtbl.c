/* List table (src/containers/qlisttbl.c): one API step from an arbitrary valid state, against an
 * ideal ordered multimap (array of (name,value) in list order).
 *
 * Pre-state (built directly): doubly linked list of VF_N nodes (constant per query); every node
 * name has 1..2 characters over {a,A,b} (case pair + a third letter; duplicates allowed unless the
 * table is UNIQUE), every value 1..2 symbolic bytes (strings of length 0..2 for save/load), and
 * node->hash == vf_hash(name) exactly as insertobj() would have stored it.  The four behaviour
 * options UNIQUE / CASEINSENSITIVE / INSERTTOP / LOOKUPFORWARD are symbolic (or fixed by
 * -DVF_OPTS=0..15).  In UNIQUE mode no two names are equal under the table's comparison.
 *
 * qhashmurmur3_32() is replaced by vf_hash(): a table of 13 solver-chosen 32-bit values indexed
 * injectively by (length, characters) of the name - i.e. *any* hash function over the name
 * alphabet, collisions included.  qlisttbl.c hashes the name bytes as given (no case folding;
 * namecasematch() ignores the hash), and so does the stub.
 *
 * Modes: plain (C08); run with the safety flags + leak check for C11; C12 assertions are always
 * present; -DVF_TS creates the table thread-safe (C14: lock depth after every public call);
 * -DVF_ALLOCFAIL activates the allocation failure schedule around the call under test (C15).
 * putstrf()/debug() (printf-style formatting, FILE output) are outside every claim.
 */
#include "vf.h"
#include "stubs.h"
#if VF_OP == 12
/* save/load: allocation sizes that depend on the (symbolic) file layout are not tractable, so every allocation of
 * non-constant size the code under test makes in this query is VF_CAP bytes long; a request above VF_CAP fails the query. */
#ifndef VF_CAP
#define VF_CAP 16
#endif
static void *vf_malloc_cap(size_t n) {
    VF_ASSERT(n <= VF_CAP, "C08.harness.cap: every allocation request of save/load fits the modelled block size");
    return vf_malloc(VF_CAP);
}
static char *vf_strdup_cap(const char *s) {
    char *p = vf_malloc(VF_CAP);
    if (p == NULL) return NULL;
    size_t i = 0;
    for (; i < VF_CAP - 1 && s[i]; i++) p[i] = s[i];
    VF_ASSERT(s[i] == 0, "C08.harness.cap: every allocation request of save/load fits the modelled block size");
    p[i] = 0;
    return p;
}
#define VF_RAW_MALLOC vf_malloc
#undef malloc
#define malloc(n) (__builtin_constant_p(n) ? vf_malloc(n) : vf_malloc_cap(n)) /* sizeof() requests stay exact */
#undef strdup
#define strdup vf_strdup_cap
#else
#define VF_RAW_MALLOC malloc
#endif
#include "utilities/qhash.h"
#include "utilities/qio.h"
#include "utilities/qfile.h"
#include "utilities/qtime.h"

#ifndef VF_N
#define VF_N 2
#endif
#ifndef VF_VAR
#define VF_VAR 0
#endif
#define NN (VF_N > 0 ? VF_N : 1)
#define GN (VF_N + 1) /* ghost capacity: pre-state + one inserted element */
#define NL 2          /* longest name */
#define VS 3          /* largest value size */

#define OP_CTOR 1
#define OP_PUT 2      /* VF_VAR 0 put, 1 putstr, 2 putint */
#define OP_GET 3      /* VF_VAR 0 get, 1 getstr, 2 getint */
#define OP_GETMULTI 4
#define OP_WALK 5     /* getnext from a zeroed cursor, unfiltered or name-filtered */
#define OP_REMOVE 6
#define OP_REMOVEOBJ 7 /* removeobj of any subset of the visited elements during a walk */
#define OP_SIZE 8
#define OP_CLEAR 9
#define OP_SORT 10
#define OP_LOCK 11
#define OP_SAVELOAD 12

struct vf_input {
    uint8_t opts;              /* bit0 UNIQUE, bit1 CASEINSENSITIVE, bit2 INSERTTOP, bit3 LOOKUPFORWARD */
    uint8_t nlen[NN];          /* name lengths 1..2 */
    char nm[NN][NL];           /* name characters */
    uint8_t vsz[NN];           /* value sizes */
    uint8_t val[NN][VS];       /* value bytes */
    uint32_t htab[13];         /* the hash function */
    uint8_t alen;              /* argument name */
    char an[NL];
    uint8_t nullname, nulldata;
    uint8_t dsz;               /* argument data */
    uint8_t d[VS];
    uint8_t newmem, wantsize, filtered, rmmask;
    int8_t num;                /* putint argument */
    unsigned failmask;
    int8_t failfrom;
};
extern struct vf_input vfin;

#ifdef VF_ALLOCFAIL
#define VF_AF 1
#define FP "C15.listtbl." /* under an allocation-failure schedule the atomicity/validity claims belong to C15 */
#define LEAK "C15.listtbl.leak: " /* ... and so does "nothing is leaked" */
#else
#define VF_AF 0
#define FP "C08."
#define LEAK "C11.listtbl.leak: "
#endif
#define CALL(stmt) do { vf_alloc_active = VF_AF; stmt; vf_alloc_active = 0; } while (0)

/* ---------------- hash stub ---------------- */
static unsigned vf_code(unsigned char c) { return c == 'a' ? 0u : c == 'A' ? 1u : 2u; }
uint32_t vf_hash(const void *data, size_t nbytes) {
    const unsigned char *p = (const unsigned char *)data;
    VF_ASSERT(nbytes <= NL, "C08.harness.hashdomain: every name handed to the hash function lies inside the modelled name domain");
    unsigned i = 0;
    if (nbytes == 1) i = 1 + vf_code(p[0]);
    else if (nbytes >= 2) i = 4 + 3 * vf_code(p[0]) + vf_code(p[1]);
    return vfin.htab[i];
}
#define qhashmurmur3_32 vf_hash

/* ---------------- libc models (GUIDE rule 9) ---------------- */
static int vf_fold(int c) { return (c >= 'A' && c <= 'Z') ? c + 32 : c; }
static int vf_strcasecmp(const char *a, const char *b) {
    for (;; a++, b++) {
        int x = vf_fold((unsigned char)*a), y = vf_fold((unsigned char)*b);
        if (x != y) return x - y;
        if (x == 0) return 0;
    }
}
/* snprintf: the only use in qlisttbl.c is snprintf(buf, 21, "%" PRId64, num) in putint() */
static int vf_snprintf(char *buf, size_t cap, const char *fmt, ...) {
    va_list ap;
    va_start(ap, fmt);
    int64_t v = va_arg(ap, int64_t);
    va_end(ap);
    char tmp[21];
    int n = 0;
    bool neg = v < 0;
    uint64_t u = neg ? (uint64_t)0 - (uint64_t)v : (uint64_t)v;
    do { tmp[n++] = (char)('0' + (int)(u % 10)); u /= 10; } while (u != 0 && n < 20);
    size_t k = 0;
    if (neg) { if (k + 1 < cap) buf[k] = '-'; k++; }
    while (n > 0) { n--; if (k + 1 < cap) buf[k] = tmp[n]; k++; }
    if (cap > 0) buf[k < cap ? k : cap - 1] = 0;
    return (int)k;
}
static long long vf_atoll(const char *s) {
    while (*s == ' ' || (*s >= '\t' && *s <= '\r')) s++;
    bool neg = false;
    if (*s == '-' || *s == '+') { neg = (*s == '-'); s++; }
    long long v = 0;
    while (*s >= '0' && *s <= '9') { v = v * 10 + (*s - '0'); s++; }
    return neg ? -v : v;
}
#undef strcasecmp
#define strcasecmp vf_strcasecmp
#undef snprintf
#define snprintf vf_snprintf
#undef atoll
#define atoll vf_atoll

/* ---------------- in-memory file layer (save/load) ---------------- */
#define FCAP 40
static char vf_file[FCAP];
static size_t vf_flen;
static int vf_opened, vf_closed, vf_fovf;
static void vf_fputc(int c) {
    if (vf_flen < FCAP) vf_file[vf_flen++] = (char)c; else vf_fovf = 1;
}
static int vf_open(const char *path, int flags, ...) { (void)path; (void)flags; vf_flen = 0; vf_opened++; return 3; }
static int vf_close(int fd) { (void)fd; vf_closed++; return 0; }
static char *vf_gmt_str(time_t t) {
    (void)t;
    char *s = malloc(2);
    if (s) { s[0] = 'T'; s[1] = 0; }
    return s;
}
/* qio_printf(fd, timeout, fmt, ...): formats and appends to the memory file; directives %s %c only */
static ssize_t vf_qio_printf(int fd, int timeoutms, const char *format, ...) {
    (void)fd; (void)timeoutms;
    size_t start = vf_flen;
    va_list ap;
    va_start(ap, format);
    for (const char *f = format; *f; f++) {
        if (*f != '%') { vf_fputc(*f); continue; }
        f++;
        if (*f == 's') {
            const char *s = va_arg(ap, const char *);
            for (; *s; s++) vf_fputc(*s);
        } else if (*f == 'c') {
#ifdef VF_CBMC
            int c = va_arg(ap, char); /* CBMC keeps variadic arguments unpromoted: save() passes a char here */
#else
            int c = va_arg(ap, int);
#endif
            vf_fputc(c);
        } else {
            VF_ASSERT(0, "C08.harness.format: the file stub knows every format directive used by save()");
        }
    }
    va_end(ap);
    return (ssize_t)(vf_flen - start);
}
/* qfile_load(path, NULL): heap copy of the file plus a terminating NUL */
static void *vf_qfile_load(const char *path, size_t *nbytes) {
    (void)path;
    char *b = VF_RAW_MALLOC(FCAP + 1);
    if (b == NULL) return NULL;
    for (size_t i = 0; i < FCAP; i++)
        if (i < vf_flen) b[i] = vf_file[i];
    b[vf_flen] = 0;
    if (nbytes) *nbytes = vf_flen;
    return b;
}
#define open vf_open
#define close vf_close
#define qtime_gmt_str vf_gmt_str
#define qio_printf vf_qio_printf
#define qfile_load vf_qfile_load

#include "containers/qlisttbl.c"
#if VF_OP == OP_SAVELOAD
#include "utilities/qencode.c"
#include "internal/qinternal.c"
#include "utilities/qstring.c"
#endif

/* ---------------- ideal ordered multimap ---------------- */
static char gname[GN][NL + 1];
static uint8_t gnlen[GN];
static uint8_t gval[GN][VS];
static uint8_t gvsz[GN];
static size_t gn;
static bool g_unique, g_ci, g_top, g_fwd;

/* the table's name comparison (specification side): bytewise, or ASCII case folded */
static int vf_name_cmp(const char *a, const char *b) {
    for (size_t k = 0; k <= NL; k++) {
        int x = (unsigned char)a[k], y = (unsigned char)b[k];
        if (g_ci) { x = vf_fold(x); y = vf_fold(y); }
        if (x != y) return x < y ? -1 : 1;
        if (x == 0) return 0;
    }
    return 0;
}
static bool vf_name_eq(const char *a, const char *b) { return vf_name_cmp(a, b) == 0; }
static bool vf_str_eq(const char *a, const char *b) { /* exact bytes, b has at most NL characters */
    for (size_t k = 0; k <= NL; k++) {
        if (a[k] != b[k]) return false;
        if (a[k] == 0) return true;
    }
    return true;
}
static void g_copy(size_t to, size_t from) {
    memcpy(gname[to], gname[from], NL + 1);
    gnlen[to] = gnlen[from];
    memcpy(gval[to], gval[from], VS);
    gvsz[to] = gvsz[from];
}
static void g_remove(size_t at) {
    for (size_t i = 0; i + 1 < GN; i++)
        if (i >= at && i + 1 < gn) g_copy(i, i + 1);
    gn--;
}
static void g_insert(size_t at, const char *name, size_t nlen, const uint8_t *val, size_t vsz) {
    for (size_t i = GN - 1; i > 0; i--)
        if (i > at && i <= gn) g_copy(i, i - 1);
    memset(gname[at], 0, NL + 1);
    for (size_t k = 0; k < NL; k++) if (k < nlen) gname[at][k] = name[k];
    gnlen[at] = (uint8_t)nlen;
    memset(gval[at], 0, VS);
    for (size_t k = 0; k < VS; k++) if (k < vsz) gval[at][k] = val[k];
    gvsz[at] = (uint8_t)vsz;
    gn++;
}
/* indexes of the entries matching `name` (NULL: every entry), in lookup order */
static size_t vf_matches(const char *name, size_t *m) {
    size_t mc = 0;
    for (size_t s = 0; s < GN; s++) {
        if (s >= gn) continue;
        size_t i = g_fwd ? s : gn - 1 - s;
        if (name == NULL || vf_name_eq(gname[i], name)) m[mc++] = i;
    }
    return mc;
}

/* representation invariant + contents == ideal list */
static bool vf_state_ok(qlisttbl_t *t) {
    if (t->num != gn) return false;
    qlisttbl_obj_t *o = t->first, *prev = NULL;
    for (size_t i = 0; i < GN; i++) {
        if (i >= gn) continue;
        if (o == NULL) return false;
        if (o->prev != prev) return false;
        if (o->name == NULL || o->data == NULL) return false;
        if (!vf_str_eq(o->name, gname[i])) return false;
        if (o->size != gvsz[i]) return false;
        for (size_t k = 0; k < VS; k++)
            if (k < gvsz[i] && ((uint8_t *)o->data)[k] != gval[i][k]) return false;
        if (o->hash != vf_hash(gname[i], gnlen[i])) return false;
        prev = o;
        o = o->next;
    }
    if (o != NULL) return false;
    if (t->last != prev) return false;
    return true;
}
static bool vf_bytes_eq(const void *p, const uint8_t *want, size_t n) {
    for (size_t k = 0; k < VS; k++)
        if (k < n && ((const uint8_t *)p)[k] != want[k]) return false;
    return true;
}

/* C12 "private copies in": snapshot the table right after the call, overwrite and release the caller's
 * buffers, the table must still hold the snapshot */
struct vf_snap { size_t n; char name[GN][NL + 1]; size_t size[GN]; uint8_t data[GN][VS]; };
static void vf_take(qlisttbl_t *t, struct vf_snap *s) {
    memset(s, 0, sizeof(*s));
    qlisttbl_obj_t *o = t->first;
    for (size_t i = 0; i < GN && o != NULL; i++, o = o->next) {
        for (size_t k = 0; k < NL; k++) { s->name[i][k] = o->name[k]; if (o->name[k] == 0) break; }
        s->size[i] = o->size;
        for (size_t k = 0; k < VS; k++) if (k < o->size) s->data[i][k] = ((uint8_t *)o->data)[k];
        s->n++;
    }
}
static bool vf_snap_eq(const struct vf_snap *a, const struct vf_snap *b) {
    if (a->n != b->n) return false;
    for (size_t i = 0; i < GN; i++) {
        if (i >= a->n) continue;
        if (a->size[i] != b->size[i]) return false;
        for (size_t k = 0; k <= NL; k++) if (a->name[i][k] != b->name[i][k]) return false;
        for (size_t k = 0; k < VS; k++) if (a->data[i][k] != b->data[i][k]) return false;
    }
    return true;
}
static void vf_scribble_free(qlisttbl_t *t, char *nb, size_t nbsz, uint8_t *db, size_t dbsz) {
    struct vf_snap s1, s2;
    vf_take(t, &s1);
    if (nb) { for (size_t k = 0; k < NL + 1; k++) if (k < nbsz) nb[k] = (char)(nb[k] ^ 0x55); free(nb); }
    if (db) { for (size_t k = 0; k < VS; k++) if (k < dbsz) db[k] = (uint8_t)~db[k]; free(db); }
    vf_take(t, &s2);
    VF_ASSERT(vf_snap_eq(&s1, &s2), "C12.listtbl.in.private: overwriting/freeing the caller's name and value buffers after the call does not change the table");
}

/* argument name in an exactly sized heap buffer (NULL when the query passes no name) */
static char *vf_name_arg(bool isnull, size_t *len) {
    if (isnull) { *len = 0; return NULL; }
    VF_ASSUME(vfin.alen >= 1 && vfin.alen <= NL);
    size_t l = vfin.alen;
    char *b = malloc(l + 1);
    VF_ASSUME(b != NULL);
    for (size_t k = 0; k < NL; k++) {
        if (k < l) {
            VF_ASSUME(vfin.an[k] == 'a' || vfin.an[k] == 'A' || vfin.an[k] == 'b');
            b[k] = vfin.an[k];
        }
    }
    b[l] = 0;
    *len = l;
    return b;
}

static qlisttbl_obj_t *vf_nodes[NN];
static int depth0;
#define LOCKCHK() VF_ASSERT(vf_lock_depth == depth0, "C14.listtbl.lock: the public function returns with the table lock at the depth it had on entry")

void vf_harness(void) {
#ifdef VF_OPTS
    vfin.opts = VF_OPTS; /* all four option bits fixed by the driver */
#endif
#ifdef VF_OPTFIX
    vfin.opts = (uint8_t)((vfin.opts & ~VF_OPTFIX) | VF_OPTVAL); /* the bits in VF_OPTFIX fixed by the driver, the others symbolic */
#endif
#ifdef VF_FAILMASK
    vfin.failmask = VF_FAILMASK;
#endif
#ifdef VF_FAILFROM
    vfin.failfrom = VF_FAILFROM;
#else
    vfin.failfrom = -1;
#endif
    g_unique = vfin.opts & 1; g_ci = (vfin.opts >> 1) & 1; g_top = (vfin.opts >> 2) & 1; g_fwd = (vfin.opts >> 3) & 1;
    int opts = (g_unique ? QLISTTBL_UNIQUE : 0) | (g_ci ? QLISTTBL_CASEINSENSITIVE : 0) | (g_top ? QLISTTBL_INSERTTOP : 0) | (g_fwd ? QLISTTBL_LOOKUPFORWARD : 0);
#ifdef VF_TS
    opts |= QLISTTBL_THREADSAFE;
#endif
    const long live_base = vf_live_blocks;
    vf_failmask = vfin.failmask; vf_fail_from = vfin.failfrom;

#if VF_OP == OP_CTOR
    /* base case: the constructor establishes the invariant (and is failure-atomic) */
    qlisttbl_t *tbl;
    CALL(tbl = qlisttbl(opts));
    if (tbl == NULL) {
        VF_ASSERT(vf_alloc_failed, FP "ctor.ok: constructor succeeds when memory is available");
        VF_ASSERT(vf_live_blocks == live_base, "C15.listtbl.ctor.leak: a failed constructor releases everything it allocated");
        VF_COVER("ctor-failed");
    } else {
        gn = 0;
        VF_ASSERT(vf_state_ok(tbl), FP "ctor.state: a new table is empty (num 0, no first/last)");
        VF_ASSERT(tbl->unique == g_unique && tbl->inserttop == g_top && tbl->lookupforward == g_fwd, FP "ctor.opts: behaviour switches follow the option bits");
        VF_ASSERT(vf_lock_depth == 0, "C14.listtbl.ctor: constructor leaves the lock released");
        size_t al;
        char *nb = vf_name_arg(false, &al);
        uint8_t *db = malloc(1);
        VF_ASSUME(db != NULL);
        db[0] = vfin.d[0];
        bool ok = tbl->put(tbl, nb, db, 1);
        g_insert(0, vfin.an, al, vfin.d, 1);
        vf_scribble_free(tbl, nb, al + 1, db, 1);
        VF_ASSERT(ok && vf_state_ok(tbl), FP "ctor.usable: first put on a new table works");
        VF_ASSERT(tbl->size(tbl) == 1, FP "ctor.size: size after the first put");
        tbl->free(tbl);
        VF_ASSERT(vf_lock_depth == 0, "C14.listtbl.free: free leaves no lock behind");
        VF_ASSERT(vf_live_blocks == live_base, LEAK "after free() every block the table allocated has been released");
    }
    VF_REACH("end");
    return;
#else
    /* ---------- pre-state ---------- */
    qlisttbl_t *tbl = qlisttbl(opts);
    VF_ASSUME(tbl != NULL);
    gn = VF_N;
#ifdef VF_NLENS
    { static const uint8_t fixed[] = VF_NLENS; for (size_t i = 0; i < VF_N; i++) vfin.nlen[i] = fixed[i]; } /* name lengths fixed by the driver */
#endif
#ifdef VF_VSZS
    { static const uint8_t fixed[] = VF_VSZS; for (size_t i = 0; i < VF_N; i++) vfin.vsz[i] = fixed[i]; } /* value sizes fixed by the driver */
#endif
    for (size_t i = 0; i < VF_N; i++) {
        VF_ASSUME(vfin.nlen[i] >= 1 && vfin.nlen[i] <= NL);
#if VF_OP == OP_SAVELOAD
        VF_ASSUME(vfin.vsz[i] >= 1 && vfin.vsz[i] <= VS); /* string of length 0..2 */
        for (size_t k = 0; k < VS; k++) {
            if (k + 1 < vfin.vsz[i]) VF_ASSUME(vfin.val[i][k] != 0);
            if (k + 1 == vfin.vsz[i]) VF_ASSUME(vfin.val[i][k] == 0);
        }
#else
        VF_ASSUME(vfin.vsz[i] >= 1 && vfin.vsz[i] <= 2);
#endif
        qlisttbl_obj_t *o = VF_RAW_MALLOC(sizeof(qlisttbl_obj_t));
        VF_ASSUME(o != NULL);
        memset(o, 0, sizeof(*o));
        size_t nl = vfin.nlen[i], vs = vfin.vsz[i];
        o->name = VF_RAW_MALLOC(nl + 1);
        o->data = VF_RAW_MALLOC(vs);
        VF_ASSUME(o->name != NULL && o->data != NULL);
        memset(gname[i], 0, NL + 1);
        memset(gval[i], 0, VS);
        for (size_t k = 0; k < NL; k++) {
            if (k < nl) {
                VF_ASSUME(vfin.nm[i][k] == 'a' || vfin.nm[i][k] == 'A' || vfin.nm[i][k] == 'b');
                o->name[k] = vfin.nm[i][k];
                gname[i][k] = vfin.nm[i][k];
            }
        }
        o->name[nl] = 0;
        for (size_t k = 0; k < VS; k++) {
            if (k < vs) { ((uint8_t *)o->data)[k] = vfin.val[i][k]; gval[i][k] = vfin.val[i][k]; }
        }
        o->size = vs;
        o->hash = vf_hash(gname[i], nl);
        gnlen[i] = (uint8_t)nl;
        gvsz[i] = (uint8_t)vs;
        vf_nodes[i] = o;
    }
    for (size_t i = 0; i < VF_N; i++) {
        vf_nodes[i]->prev = i > 0 ? vf_nodes[i - 1] : NULL;
        vf_nodes[i]->next = i + 1 < VF_N ? vf_nodes[i + 1] : NULL;
    }
    if (VF_N > 0) { tbl->first = vf_nodes[0]; tbl->last = vf_nodes[VF_N - 1]; }
    tbl->num = VF_N;
    if (g_unique)
        for (size_t i = 0; i < VF_N; i++)
            for (size_t j = i + 1; j < VF_N; j++)
                VF_ASSUME(!vf_name_eq(gname[i], gname[j]));
    const size_t n0 = gn;
    depth0 = vf_lock_depth;
    errno = 0;
    /* copies handed out by the call (kept until after the table is released) */
    void *ret_copy = NULL;
    uint8_t ret_want[VS];
    size_t ret_size = 0;
    qlisttbl_data_t *ret_multi = NULL;
    size_t ret_mi[GN], ret_mc = 0;
    (void)n0; (void)ret_want; (void)ret_size; (void)ret_mi; (void)ret_mc;

#if VF_OP == OP_PUT
    {
        bool nullname = vfin.nullname & 1, nulldata = vfin.nulldata & 1;
        size_t al;
        char *nb = vf_name_arg(nullname, &al);
        uint8_t ev[VS];
        size_t evsz = 0, dbsz = 0;
        uint8_t *db = NULL;
        bool ok, valid;
        memset(ev, 0, VS);
#if VF_VAR == 0
        VF_ASSUME(vfin.dsz <= 2);
        evsz = vfin.dsz;
        dbsz = evsz ? evsz : 1;
        if (!nulldata) {
            db = malloc(dbsz);
            VF_ASSUME(db != NULL);
            for (size_t k = 0; k < VS; k++) if (k < dbsz) { db[k] = vfin.d[k]; ev[k] = vfin.d[k]; }
        }
        CALL(ok = tbl->put(tbl, nb, db, evsz));
        valid = nb != NULL && db != NULL && evsz > 0;
#elif VF_VAR == 1
        VF_ASSUME(vfin.dsz >= 1 && vfin.dsz <= VS);
        evsz = vfin.dsz; /* strlen + 1 */
        dbsz = evsz;
        if (!nulldata) {
            db = malloc(dbsz);
            VF_ASSUME(db != NULL);
            for (size_t k = 0; k < VS; k++) {
                if (k + 1 < dbsz) { VF_ASSUME(vfin.d[k] != 0); db[k] = vfin.d[k]; ev[k] = vfin.d[k]; }
                if (k + 1 == dbsz) db[k] = 0;
            }
        }
        CALL(ok = tbl->putstr(tbl, nb, (const char *)db));
        valid = nb != NULL && db != NULL;
#else
        VF_ASSUME(vfin.num >= -9 && vfin.num <= 99);
        {
            int v = vfin.num;
            if (v < 0) { ev[0] = '-'; ev[1] = (uint8_t)('0' - v); evsz = 3; }
            else if (v < 10) { ev[0] = (uint8_t)('0' + v); evsz = 2; }
            else { ev[0] = (uint8_t)('0' + v / 10); ev[1] = (uint8_t)('0' + v % 10); evsz = 3; }
        }
        CALL(ok = tbl->putint(tbl, nb, (int64_t)vfin.num));
        valid = nb != NULL;
#endif
        LOCKCHK();
        char namecopy[NL + 1];
        memset(namecopy, 0, sizeof(namecopy));
        for (size_t k = 0; k < NL; k++) if (k < al) namecopy[k] = vfin.an[k];
        vf_scribble_free(tbl, nb, al + 1, db, dbsz);
        if (ok) {
            VF_ASSERT(valid, FP "put.refuse: put without a name, without data or with size 0 is refused");
            if (g_unique) {
                for (size_t s = GN; s > 0; s--)
                    if (s - 1 < gn && vf_name_eq(gname[s - 1], namecopy)) g_remove(s - 1);
            }
            g_insert(g_top ? 0 : gn, namecopy, al, ev, evsz);
            VF_COVER("put-ok");
        } else {
            VF_ASSERT(!valid || vf_alloc_failed, FP "put.accept: a valid put succeeds");
            VF_COVER("put-refused");
        }
        if (ok) VF_ASSERT(vf_state_ok(tbl), FP "put.effect: the entry is appended at the bottom (prepended with INSERTTOP), a UNIQUE table first drops every entry with an equal key, everything else is untouched");
        else VF_ASSERT(vf_state_ok(tbl), FP "put.refused: a refused put leaves the table unchanged");
        VF_ASSERT(tbl->size(tbl) == gn, FP "put.size: size is exact after put");
    }
#elif VF_OP == OP_GET
    {
        bool nullname = vfin.nullname & 1, nm = vfin.newmem & 1;
        size_t al;
        char *nb = vf_name_arg(nullname, &al);
        size_t m[GN];
        size_t mc = nb ? vf_matches(nb, m) : 0;
#if VF_VAR == 2
        /* getint reads the value as a C string: every stored value is NUL terminated here */
        for (size_t i = 0; i < VF_N; i++) VF_ASSUME(gval[i][gvsz[i] - 1] == 0);
        int64_t got;
        CALL(got = tbl->getint(tbl, nb));
        LOCKCHK();
        if (mc > 0 && !vf_alloc_failed) {
            uint8_t c0 = gval[m[0]][0];
            int64_t want = (c0 >= '0' && c0 <= '9') ? c0 - '0' : 0;
            VF_ASSERT(got == want, FP "getint.value: getint converts the first match in lookup direction");
            VF_COVER("getint-found");
        } else {
            VF_ASSERT(got == 0, FP "getint.none: getint returns 0 when there is no such key");
            if (mc > 0) VF_ASSERT(errno == ENOMEM, FP "getint.enomem: allocation failure is reported through errno");
        }
#else
        size_t sz = 4711;
        void *p;
#if VF_VAR == 0
        bool ws = vfin.wantsize & 1;
        CALL(p = tbl->get(tbl, nb, ws ? &sz : NULL, nm));
#else
        bool ws = false;
        CALL(p = tbl->getstr(tbl, nb, nm));
#endif
        LOCKCHK();
        if (p != NULL) {
            VF_ASSERT(mc > 0, FP "get.none: get of an absent key (or without a name) returns NULL");
            size_t i = m[0];
            VF_ASSERT(vf_bytes_eq(p, gval[i], gvsz[i]), FP "get.value: get returns the value of the first match in lookup direction");
            if (ws) VF_ASSERT(sz == gvsz[i], FP "get.size: get reports the exact value size");
            if (nm) {
                for (size_t j = 0; j < VF_N; j++)
                    VF_ASSERT(!VF_SAME_OBJECT(p, vf_nodes[j]->data), "C12.listtbl.get.copy: get with the copy flag returns an independent allocation");
                ret_copy = p;
                ret_size = gvsz[i];
                memcpy(ret_want, gval[i], VS);
            } else {
                VF_ASSERT(p == vf_nodes[i]->data, FP "get.internal: get without the copy flag returns the stored buffer of that entry");
            }
            VF_COVER("get-found");
        } else {
            VF_ASSERT(mc == 0 || vf_alloc_failed, FP "get.accept: get of a present key succeeds");
            if (ws) VF_ASSERT(sz == 4711, FP "get.nosize: a failed get does not report a size");
            if (mc == 0) VF_ASSERT(errno == (nb ? ENOENT : EINVAL), FP "get.errno: ENOENT for an absent key, EINVAL without a name");
            VF_COVER("get-none");
        }
#endif
        if (nb) free(nb);
        VF_ASSERT(vf_state_ok(tbl), FP "get.pure: get does not modify the table");
    }
#elif VF_OP == OP_GETMULTI
    {
        bool nullname = vfin.nullname & 1, nm = vfin.newmem & 1, wc = vfin.wantsize & 1;
        size_t al;
        char *nb = vf_name_arg(nullname, &al);
        size_t mc = vf_matches(nb, ret_mi);
        size_t cnt = 4711;
        qlisttbl_data_t *objs;
        CALL(objs = tbl->getmulti(tbl, nb, nm, wc ? &cnt : NULL));
        LOCKCHK();
        if (objs != NULL) {
            VF_ASSERT(mc > 0, FP "getmulti.none: no array is returned when nothing matches");
            if (wc) VF_ASSERT(cnt == mc, FP "getmulti.count: *numobjs is the number of matches");
            for (size_t k = 0; k < GN; k++) {
                if (k >= mc) continue;
                size_t i = ret_mi[k];
                VF_ASSERT(objs[k].data != NULL && objs[k].size == gvsz[i] && vf_bytes_eq(objs[k].data, gval[i], gvsz[i]), FP "getmulti.order: the array holds every match, in lookup order, with its exact size and bytes");
                if (nm) {
                    for (size_t j = 0; j < VF_N; j++)
                        VF_ASSERT(!VF_SAME_OBJECT(objs[k].data, vf_nodes[j]->data), "C12.listtbl.getmulti.copy: getmulti with the copy flag returns independent allocations");
                } else {
                    VF_ASSERT(objs[k].data == vf_nodes[i]->data, FP "getmulti.internal: without the copy flag the array refers to the stored buffers");
                }
            }
            VF_ASSERT(objs[mc].data == NULL && objs[mc].type != 2, FP "getmulti.term: the array ends with a terminator entry (data NULL)");
            ret_multi = objs;
            ret_mc = nm ? mc : 0;
            VF_COVER("getmulti-found");
        } else {
            VF_ASSERT(mc == 0 || vf_alloc_failed, FP "getmulti.accept: getmulti of a present key returns its matches");
            if (wc && !vf_alloc_failed) VF_ASSERT(cnt == 0, FP "getmulti.zero: *numobjs is 0 when nothing matches");
            VF_COVER("getmulti-none");
        }
        if (nb) free(nb);
        VF_ASSERT(vf_state_ok(tbl), FP "getmulti.pure: getmulti does not modify the table");
    }
#elif VF_OP == OP_WALK
    {
        bool filtered = vfin.filtered & 1, nm = vfin.newmem & 1;
        size_t al;
        char *nb = vf_name_arg(!filtered, &al);
        size_t m[GN];
        size_t mc = vf_matches(nb, m);
        qlisttbl_obj_t cur;
        memset(&cur, 0, sizeof(cur));
        size_t k = 0;
        bool more = false;
        for (; k < GN + 1; k++) {
            errno = 0;
            CALL(more = tbl->getnext(tbl, &cur, nb, nm));
            LOCKCHK();
            if (!more) break;
            VF_ASSERT(k < mc, FP "walk.end: the walk ends after the last match");
            if (k < mc) {
                size_t i = m[k];
                VF_ASSERT(cur.name != NULL && vf_str_eq(cur.name, gname[i]) && cur.size == gvsz[i] && cur.data != NULL && vf_bytes_eq(cur.data, gval[i], gvsz[i]) && cur.hash == vf_hash(gname[i], gnlen[i]),
                          FP "walk.order: a walk from a zeroed cursor yields the (matching) entries in lookup order with their exact name, size and bytes");
                if (nm) {
                    for (size_t j = 0; j < VF_N; j++)
                        VF_ASSERT(!VF_SAME_OBJECT(cur.data, vf_nodes[j]->data) && !VF_SAME_OBJECT(cur.name, vf_nodes[j]->name), "C12.listtbl.walk.copy: a walk with the copy flag hands out independent allocations");
                } else {
                    VF_ASSERT(cur.name == vf_nodes[i]->name && cur.data == vf_nodes[i]->data, FP "walk.internal: without the copy flag the cursor refers to the stored buffers");
                }
            }
            if (nm) { free(cur.name); free(cur.data); }
        }
        VF_ASSERT(!more, FP "walk.stop: the walk terminates");
        VF_ASSERT(k == mc || vf_alloc_failed, FP "walk.count: the walk yields every match exactly once and then ends");
        if (k == mc) VF_ASSERT(errno == ENOENT || (vf_alloc_failed && errno == ENOMEM), FP "walk.errno: the end of the walk is reported as ENOENT");
        else VF_ASSERT(errno == ENOMEM, FP "walk.enomem: a walk cut short by an allocation failure reports ENOMEM (not 'no more entries')");
        if (nb) free(nb);
        VF_ASSERT(vf_state_ok(tbl), FP "walk.pure: walking does not modify the table");
    }
#elif VF_OP == OP_REMOVE
    {
        bool nullname = vfin.nullname & 1;
        size_t al;
        char *nb = vf_name_arg(nullname, &al);
        size_t m[GN];
        size_t mc = nb ? vf_matches(nb, m) : 0;
        size_t r;
        CALL(r = tbl->remove(tbl, nb));
        LOCKCHK();
        VF_ASSERT(r == mc, FP "remove.count: remove returns the number of entries with an equal key (0 without a name)");
        if (nb) {
            for (size_t s = GN; s > 0; s--)
                if (s - 1 < gn && vf_name_eq(gname[s - 1], nb)) g_remove(s - 1);
        }
        VF_ASSERT(vf_state_ok(tbl), FP "remove.effect: every matching entry is gone, all others keep their order and contents");
        VF_ASSERT(tbl->size(tbl) == n0 - mc, FP "remove.size: size is exact after remove");
        if (nb) free(nb);
        if (mc > 1) VF_COVER("remove-many");
    }
#elif VF_OP == OP_REMOVEOBJ
    {
        bool filtered = vfin.filtered & 1, nm = vfin.newmem & 1;
        size_t al;
        char *nb = vf_name_arg(!filtered, &al);
        size_t m[GN];
        size_t mc = vf_matches(nb, m);
        bool gone[GN];
        memset(gone, 0, sizeof(gone));
        VF_ASSERT(tbl->removeobj(tbl, NULL) == false, FP "removeobj.null: removeobj without a cursor is refused");
        LOCKCHK();
        qlisttbl_obj_t cur;
        memset(&cur, 0, sizeof(cur));
        size_t k = 0;
        bool more = false;
        tbl->lock(tbl); /* documented usage: the walk-and-remove loop runs inside lock()/unlock() */
        for (; k < GN + 1; k++) {
            CALL(more = tbl->getnext(tbl, &cur, nb, nm));
            if (!more) break;
            VF_ASSERT(k < mc, FP "removeobj.end: the walk ends after the last match");
            if (k < mc) {
                size_t i = m[k];
                VF_ASSERT(cur.name != NULL && vf_str_eq(cur.name, gname[i]) && cur.size == gvsz[i] && cur.data != NULL && vf_bytes_eq(cur.data, gval[i], gvsz[i]),
                          FP "removeobj.order: removing visited entries does not disturb the rest of the walk");
                if ((vfin.rmmask >> k) & 1) {
                    bool ok;
                    CALL(ok = tbl->removeobj(tbl, &cur));
                    VF_ASSERT(ok, FP "removeobj.ok: removeobj of the entry under the cursor succeeds");
                    gone[i] = true;
                    if (i == 0 && n0 > 1) VF_COVER("removed-first");
                    if (i == n0 - 1 && n0 > 1) VF_COVER("removed-last");
                    if (n0 == 1) VF_COVER("removed-only");
                }
            }
            if (nm) { free(cur.name); free(cur.data); }
        }
        tbl->unlock(tbl);
        LOCKCHK();
        VF_ASSERT(!more, FP "removeobj.stop: the walk terminates");
        VF_ASSERT(k == mc || vf_alloc_failed, FP "removeobj.count: the walk still visits every match exactly once");
        for (size_t s = GN; s > 0; s--)
            if (s - 1 < n0 && gone[s - 1]) g_remove(s - 1);
        VF_ASSERT(vf_state_ok(tbl), FP "removeobj.effect: exactly the entries removed through the cursor are gone, links/first/last/num are repaired");
        if (nb) free(nb);
    }
#elif VF_OP == OP_SIZE
    {
        size_t s;
        CALL(s = tbl->size(tbl));
        LOCKCHK();
        VF_ASSERT(s == n0, FP "size: size is the number of entries");
        VF_ASSERT(vf_state_ok(tbl), FP "size.pure: size does not modify the table");
    }
#elif VF_OP == OP_CLEAR
    {
        CALL(tbl->clear(tbl));
        LOCKCHK();
        gn = 0;
        VF_ASSERT(vf_state_ok(tbl) && tbl->size(tbl) == 0, FP "clear: clear empties the table");
        size_t al;
        char *nb = vf_name_arg(false, &al);
        uint8_t *db = malloc(1);
        VF_ASSUME(db != NULL);
        db[0] = vfin.d[0];
        bool ok = tbl->put(tbl, nb, db, 1);
        g_insert(0, vfin.an, al, vfin.d, 1);
        vf_scribble_free(tbl, nb, al + 1, db, 1);
        VF_ASSERT(ok && vf_state_ok(tbl), FP "clear.usable: the table is usable after clear");
    }
#elif VF_OP == OP_SORT
    {
        CALL(tbl->sort(tbl));
        LOCKCHK();
        /* specification: stable insertion sort of the ideal list by the table's name comparison */
        uint8_t idx[GN];
        for (size_t i = 0; i < GN; i++) idx[i] = (uint8_t)i;
        for (size_t i = 1; i < GN; i++) {
            if (i >= gn) continue;
            for (size_t j = i; j > 0; j--) {
                if (vf_name_cmp(gname[j - 1], gname[j]) <= 0) break;
                g_copy(GN - 1, j); /* slot GN-1 is free scratch space (gn <= VF_N < GN) */
                g_copy(j, j - 1);
                g_copy(j - 1, GN - 1);
                uint8_t t = idx[j]; idx[j] = idx[j - 1]; idx[j - 1] = t;
            }
        }
        /* the specification itself: a permutation, ascending, equal keys in their original relative order */
        for (size_t i = 0; i < GN; i++) {
            if (i >= gn) continue;
            size_t seen = 0;
            for (size_t j = 0; j < GN; j++) if (j < gn && idx[j] == i) seen++;
            VF_ASSERT(seen == 1, FP "sort.spec.perm: expected result is a permutation of the entries");
            if (i + 1 < gn) {
                int c = vf_name_cmp(gname[i], gname[i + 1]);
                VF_ASSERT(c <= 0, FP "sort.spec.asc: expected result ascends by the table's name comparison");
                VF_ASSERT(c != 0 || idx[i] < idx[i + 1], FP "sort.spec.stable: equal keys keep their relative order");
            }
        }
        VF_ASSERT(vf_state_ok(tbl), FP "sort.effect: sort yields the stable ascending permutation of the entries (names, values, sizes and hashes move together; links intact)");
        {
            qlisttbl_obj_t *o = tbl->first;
            for (size_t i = 0; i + 1 < GN && o != NULL && o->next != NULL; i++, o = o->next)
                VF_ASSERT(vf_name_cmp(o->name, o->next->name) <= 0, FP "sort.asc: after sort neighbouring keys ascend");
        }
    }
#elif VF_OP == OP_LOCK
    {
        tbl->lock(tbl);
#ifdef VF_TS
        VF_ASSERT(vf_lock_depth == depth0 + 1, "C14.listtbl.lock.enter: lock() enters the critical section once");
#else
        VF_ASSERT(vf_lock_depth == depth0, "C14.listtbl.lock.nolock: without THREADSAFE lock() is a no-op");
#endif
        size_t s = tbl->size(tbl);
        tbl->unlock(tbl);
        LOCKCHK();
        VF_ASSERT(s == n0 && vf_state_ok(tbl), FP "lock.pure: lock/unlock do not modify the table");
    }
#elif VF_OP == OP_SAVELOAD
    {
        bool ok;
        ok = tbl->save(tbl, "f", '=', true);
        LOCKCHK();
        VF_ASSERT(ok && vf_opened == 1 && vf_closed == 1 && !vf_fovf, FP "save.ok: save succeeds and closes the file");
        VF_ASSERT(vf_state_ok(tbl), FP "save.pure: save does not modify the table");
        qlisttbl_t *t2 = qlisttbl(opts);
        VF_ASSUME(t2 != NULL);
        ssize_t r = t2->load(t2, "f", '=', true);
        LOCKCHK();
        VF_ASSERT(vf_state_ok(t2), FP "load.entries: load(save(t)) reproduces the entries of t (names, string values, sizes) in the same order");
        VF_ASSERT(r == (ssize_t)n0, FP "load.count: load returns the number of entries loaded");
        t2->free(t2);
    }
#endif
    vf_alloc_active = 0;

    /* ---------- cross-cutting post-conditions ---------- */
    LOCKCHK();
#ifdef VF_ALLOCFAIL
    if (vf_alloc_failed) VF_COVER("alloc-failed");
#endif
    tbl->free(tbl);
    VF_ASSERT(vf_lock_depth == depth0, "C14.listtbl.free: free leaves no lock behind");
    if (ret_copy) {
        VF_ASSERT(vf_bytes_eq(ret_copy, ret_want, ret_size), "C12.listtbl.copy.survives: a returned copy stays intact after the table is released");
        free(ret_copy);
    }
    if (ret_multi) {
        for (size_t k = 0; k < GN; k++)
            if (k < ret_mc) VF_ASSERT(vf_bytes_eq(ret_multi[k].data, gval[ret_mi[k]], gvsz[ret_mi[k]]), "C12.listtbl.copy.survives: a returned copy stays intact after the table is released");
        qlisttbl_freemulti(ret_multi);
    }
    VF_ASSERT(vf_live_blocks == live_base, LEAK "after free() (and freemulti) every block the table allocated has been released");
    VF_REACH("end");
#endif
}
#include "vf_main.h"
