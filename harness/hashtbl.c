/* Hash table (src/containers/qhashtbl.c): one API step from an arbitrary valid state (C05),
 * with the cross-cutting modes C11 (safety flags + ledger), C12 (private copies), C14 (-DVF_TS),
 * C15 (-DVF_ALLOCFAIL).
 *
 * Hash stub.  qhashmurmur3_32 (verified on its own in C18) is replaced inside these queries by
 * vf_hash(): an ARBITRARY function from keys to 32-bit values, given as a table vfin.HT of
 * solver-chosen words indexed by an injective code of (length, every key byte) over the symbolic
 * alphabet A = { m^0, .., m^4 } (m = vfin.amask, a solver-chosen byte >= 8: five non-zero byte
 * values that differ in their low three bits; a fully free alphabet costs 10x in solver time).
 * Bytes outside the alphabet and other lengths share one extra entry each.  So every collision
 * pattern (same slot, same full hash, different slots) is explored for every key set, and a change
 * to which bytes/length the table passes to its hash changes the stub's answer.
 *
 * Pre-state.  Real constructor qhashtbl(VF_R, opts); VF_N = VF_C0+..+VF_C3 nodes linked by hand:
 * slot s holds a chain of VF_Cs nodes (per-query constants: the pointer structure is fixed, the
 * driver enumerates every composition of n over the R slots).  Node keys: NUL-terminated strings of
 * symbolic length 1..2 in exactly sized heap blocks; key i = letter i + optional symbolic second
 * letter, i.e. distinct by construction.  That loses no behaviour: the table uses a stored name only
 * through strcmp()==0 against the argument, strlen/strdup, and through the hash, which is arbitrary
 * here; so it is equivariant under every length-preserving renaming of keys, and each orbit contains
 * such a state.  (Pairwise-distinctness assumptions over free names make 4-node queries 15x slower.)
 * The operation key and the probe key are unconstrained: any length, any letters, so they hit any
 * node, share a prefix with one, or are fresh.  Values: 1..3 symbolic bytes of symbolic size in
 * exactly sized heap blocks.  node->hash == vf_hash(key), ASSUMED congruent to its slot
 * (hash % R == slot).  Chain order inside a slot is by node index, which loses nothing because node
 * contents are symmetric.  Every such state is reachable: put() inserts at the chain head, so
 * putting the keys of a slot in reverse chain order yields any chain order; slots are independent.
 *
 * Operation VF_OP with symbolic key (present at the head/middle/tail of a chain, or absent: decided
 * by the solver), value, flags.
 * Post.  Ideal map (ghost arrays) equations: an independent walker over slots/chains establishes
 * table == ghost (count, num, slot of hash, no duplicate keys, names, sizes, bytes); with -DVF_PROBE
 * a universally quantified probe key is additionally read back through the real get() after a
 * mutation (implied by induction: walker + the GET queries from every valid state).
 */
#include "vf.h"
#include "stubs.h"

#ifndef VF_R
#define VF_R 2
#endif
#ifndef VF_C0
#define VF_C0 0
#endif
#ifndef VF_C1
#define VF_C1 0
#endif
#ifndef VF_C2
#define VF_C2 0
#endif
#ifndef VF_C3
#define VF_C3 0
#endif
#define VF_N (VF_C0 + VF_C1 + VF_C2 + VF_C3)
#define NCAP (VF_N > 0 ? VF_N : 1)
#define G (VF_N + 1)  /* ghost capacity: the pre-state keys plus one new key */
#define AL 5          /* alphabet size */
#define KMAX 2        /* longest key */
#define VMAX 3        /* longest value put by the harness */
#define VCAP 6        /* longest value that can be stored (putint: "-9999" + NUL) */
#define HTK ((AL + 1) + (AL + 1) * (AL + 1) + 1)
#define SLOT_OF(i) ((i) < VF_C0 ? 0 : (i) < VF_C0 + VF_C1 ? 1 : (i) < VF_C0 + VF_C1 + VF_C2 ? 2 : 3)
#define RANGE (VF_R > 0 ? VF_R : 1000)

#define OP_PUT 1
#define OP_PUTSTR 2
#define OP_PUTINT 3
#define OP_GET 4
#define OP_GETSTR 5
#define OP_GETINT 6
#define OP_REMOVE 7
#define OP_CLEAR 8
#define OP_SIZE 9
#define OP_WALK 10
#define OP_CTOR 11
#define OP_DEBUG 12
#define OP_INVAL 13

struct vf_input {
    uint8_t amask;       /* alphabet: letter j is the byte amask ^ j (amask >= 8, so no letter is NUL) */
    uint32_t HT[HTK];    /* the stub hash function */
    uint8_t nlen[NCAP], nk[NCAP][KMAX]; /* node key length and letters */
    uint8_t nvs[NCAP], nv[NCAP][VMAX];  /* node value size and bytes */
    uint8_t klen, k[KMAX];              /* operation key */
    uint8_t vs, v[VMAX];                /* operation value */
    uint8_t qlen, q[KMAX];              /* probe key */
    int64_t num;                        /* putint argument */
    uint8_t newmem, variant, uselock;
    unsigned failmask;
    int8_t failfrom;
};
extern struct vf_input vfin;

/* ---------------- stubs installed into qhashtbl.c ---------------- */
#define LETTER(j) ((char)(uint8_t)(vfin.amask ^ (j)))
static unsigned vf_letter(uint8_t b) {
    uint8_t d = (uint8_t)(b ^ vfin.amask);
    return d < AL ? d : AL; /* AL = not a letter of the alphabet */
}
/* injective code of a key: (length, letters) -> 0..HTK-2; everything else -> HTK-1 */
static unsigned vf_code(const uint8_t *p, size_t nbytes) {
    if (nbytes == 1) return vf_letter(p[0]);
    if (nbytes == 2) return (AL + 1) + (AL + 1) * vf_letter(p[0]) + vf_letter(p[1]);
    return HTK - 1;
}
static unsigned vf_strcode(const char *s) {
    const uint8_t *p = (const uint8_t *)s;
    if (p[0] == 0) return HTK - 1;
    if (p[1] == 0) return vf_code(p, 1);
    if (p[2] == 0) return vf_code(p, 2);
    return HTK - 1;
}
static unsigned vf_speccode(uint8_t len, const uint8_t *l) { return len == 1 ? l[0] : (AL + 1) + (AL + 1) * l[0] + l[1]; }
/* replaces qhashmurmur3_32: reads exactly nbytes bytes (so an over-long length is an out-of-bounds read
 * under the safety flags), answers from the solver-chosen table */
uint32_t vf_hash(const void *data, size_t nbytes) {
    const uint8_t *p = (const uint8_t *)data;
    unsigned touched = 0;
    for (size_t i = 0; i < KMAX + 2; i++)
        if (i < nbytes) touched += p[i];
    (void)touched;
    uint32_t h = vfin.HT[vf_code(p, nbytes)];
#ifdef VF_HBITS
    /* ranges that are not a power of two: SAT needs minutes to relate the divider circuits of hash % range in the
     * table and in the harness for 32-bit words; such queries bound the hash width (full width for ranges 1, 2, 4) */
    VF_ASSUME(h < (1u << VF_HBITS));
#endif
    return h;
}
/* decimal formatting model for the one snprintf(str, 21, "%" PRId64, num) of putint; |num| < 10^4.
 * Digits by comparison with constants (no divider circuit in the formula). */
static unsigned vf_digit(unsigned *u, unsigned unit) {
    unsigned d = 0, sub = 0;
    for (unsigned k = 1; k <= 9; k++)
        if (*u >= k * unit) { d = k; sub = k * unit; }
    *u -= sub;
    return d;
}
static int vf_fmt_i64(char *s, size_t n, int64_t v) {
    VF_ASSUME(v > -10000 && v < 10000);
    int x = (int)v, neg = x < 0;
    unsigned u = neg ? (unsigned)(-x) : (unsigned)x;
    unsigned d[4];
    d[0] = vf_digit(&u, 1000); d[1] = vf_digit(&u, 100); d[2] = vf_digit(&u, 10); d[3] = u;
    unsigned first = d[0] ? 0 : d[1] ? 1 : d[2] ? 2 : 3; /* no leading zeros; "0" for zero */
    size_t pos = 0;
    if (neg) s[pos++] = '-';
    for (unsigned i = 0; i < 4; i++)
        if (i >= first) s[pos++] = (char)('0' + d[i]);
    s[pos] = 0;
    (void)n;
    return (int)pos;
}
/* atoll model (getint): optional blanks, optional sign, decimal digits */
static long long vf_atoll(const char *s) {
    size_t i = 0;
    while (s[i] == ' ' || (s[i] >= '\t' && s[i] <= '\r')) i++;
    int neg = 0;
    if (s[i] == '-') { neg = 1; i++; }
    else if (s[i] == '+') i++;
    long long r = 0;
    while (s[i] >= '0' && s[i] <= '9') { r = r * 10 + (s[i] - '0'); i++; }
    return neg ? -r : r;
}
static int vf_fprintf(FILE *f, const char *fmt, ...) { (void)f; (void)fmt; return 0; }
void vf_textout(FILE *fp, void *data, size_t size, size_t max) { (void)fp; (void)data; (void)size; (void)max; }
/* stubs.h ignores the mutex argument; the real pthread_mutex_init() writes through it */
static int vf_ht_mutex_init(pthread_mutex_t *m, const pthread_mutexattr_t *a) {
    (void)a;
    VF_ASSERT(m != NULL, "C15.hashtbl.ctor.mutexnull: pthread_mutex_init() is never handed the mutex of a failed allocation (it would write through NULL)");
    return 0;
}

#define qhashmurmur3_32 vf_hash
#undef snprintf
#define snprintf(s, n, fmt, v) vf_fmt_i64((s), (n), (v))
#undef atoll
#define atoll vf_atoll
#define fprintf vf_fprintf
#define _q_textout vf_textout
#undef pthread_mutex_init
#define pthread_mutex_init vf_ht_mutex_init
#include "containers/qhashtbl.c"
#undef fprintf
#undef snprintf
#undef atoll
#undef _q_textout

#ifdef VF_ALLOCFAIL
#define VF_AF 1
#define FP "C15.hashtbl." /* under an allocation-failure schedule the atomicity/validity claims belong to C15 */
#else
#define VF_AF 0
#define FP "C05."
#endif
/* the allocation-failure schedule is active exactly during the API call under test */
#define CALL(stmt) do { vf_alloc_active = VF_AF; stmt; vf_alloc_active = 0; } while (0)
/* lock balance after a public function; re-synchronise so that one leaked lock is reported once */
#define LOCKCHK(tag) do { VF_ASSERT(vf_lock_depth == depth0, tag); vf_lock_depth = depth0; } while (0)

/* ---------------- ideal map ---------------- */
static uint8_t gcode[G]; /* key code (vf_code) */
static uint32_t ghash[G]; /* vf_hash(key) */
static size_t gslot[G];   /* ghash % range, computed once per key (each extra divider circuit is expensive for SAT) */
static uint8_t gval[G][VCAP];
static size_t gsz[G];
static bool gp[G];

static int vf_gfind(unsigned code) {
    for (int j = 0; j < G; j++)
        if (gp[j] && gcode[j] == code) return j;
    return -1;
}
static size_t vf_gcount(void) {
    size_t c = 0;
    for (int j = 0; j < G; j++)
        if (gp[j]) c++;
    return c;
}
static void vf_gput(unsigned key, const uint8_t *val, size_t sz) {
    int j = vf_gfind(key);
    if (j < 0) {
        for (int i = G - 1; i >= 0; i--)
            if (!gp[i]) j = i;
        gcode[j] = (uint8_t)key;
        ghash[j] = vfin.HT[key];
        gslot[j] = ghash[j] % RANGE;
        gp[j] = true;
    }
    for (size_t i = 0; i < VCAP; i++) gval[j][i] = i < sz ? val[i] : 0;
    gsz[j] = sz;
}
static bool vf_bytes_eq(const void *p, const uint8_t *want, size_t n) {
    for (size_t i = 0; i < VCAP; i++)
        if (i < n && ((const uint8_t *)p)[i] != want[i]) return false;
    return true;
}
/* independent walker: table == ghost.  Every node sits in the slot of its hash, hash is the hash of its
 * name, no key twice, names/sizes/bytes as in the ghost, node count == num == ghost count. */
static bool vf_matches(qhashtbl_t *t) {
    bool seen[G];
    size_t cnt = 0;
    for (int j = 0; j < G; j++) seen[j] = false;
    if (t->range != VF_R || t->slots == NULL) return false;
    for (size_t s = 0; s < VF_R; s++) {
        size_t steps = 0;
        for (qhashtbl_obj_t *o = t->slots[s]; o != NULL; o = o->next) {
            if (++steps > G) return false; /* longer than any legal chain (cycle) */
            if (o->name == NULL || o->data == NULL) return false;
            unsigned oc = vf_strcode(o->name);
            int j = vf_gfind(oc);
            if (j < 0 || seen[j]) return false;
            seen[j] = true;
            if (o->size != gsz[j] || !vf_bytes_eq(o->data, gval[j], gsz[j])) return false;
            if (o->hash != ghash[j] || gslot[j] != s) return false;
            cnt++;
        }
    }
    return cnt == vf_gcount() && t->num == cnt;
}
/* is p (part of) one of the blocks the table owns for names/values? */
static bool vf_is_internal(qhashtbl_t *t, const void *p) {
    for (size_t s = 0; s < VF_R; s++) {
        size_t steps = 0;
        for (qhashtbl_obj_t *o = t->slots[s]; o != NULL; o = o->next) {
            if (++steps > G) return false;
            if (VF_SAME_OBJECT(p, o->name) || VF_SAME_OBJECT(p, o->data)) return true;
        }
    }
    return false;
}

static char *vf_mkkey(uint8_t len, const uint8_t *letters) {
    char *b = malloc((size_t)len + 1); /* shim: never fails outside CALL() */
    VF_ASSUME(b != NULL);
    for (size_t i = 0; i < KMAX; i++)
        if (i < len) b[i] = LETTER(letters[i]);
    b[len] = 0;
    return b;
}
static uint8_t *vf_mkval(uint8_t sz, const uint8_t *bytes) {
    uint8_t *b = malloc(sz);
    VF_ASSUME(b != NULL);
    for (size_t i = 0; i < VMAX; i++)
        if (i < sz) b[i] = bytes[i];
    return b;
}
static bool vf_keyspec_ok(uint8_t len, const uint8_t *letters) {
    if (len < 1 || len > KMAX) return false;
    for (size_t i = 0; i < KMAX; i++)
        if (i < len && letters[i] >= AL) return false;
    return true;
}
/* C12 "private copies in": nothing the table holds is the caller's buffer; then overwrite and release it */
static void vf_scribble_free(void *b, size_t n) {
    for (size_t i = 0; i < VCAP; i++)
        if (i < n) ((uint8_t *)b)[i] = (uint8_t)~((uint8_t *)b)[i];
    free(b);
}

void vf_harness(void) {
    int opts = 0;
#ifdef VF_FAILMASK
    vfin.failmask = VF_FAILMASK; /* allocation-failure position: constant per query (driver enumerates positions) */
#endif
#ifdef VF_FAILFROM
    vfin.failfrom = VF_FAILFROM;
#else
    vfin.failfrom = -1;
#endif
#ifdef VF_NM
    vfin.newmem = VF_NM;
#endif
#ifdef VF_TS
    opts |= QHASHTBL_THREADSAFE;
#endif
    VF_ASSUME(vfin.amask >= 8); /* letters differ in the low three bits, none is NUL */
    VF_ASSUME(vf_keyspec_ok(vfin.klen, vfin.k) && vf_keyspec_ok(vfin.qlen, vfin.q));
    VF_ASSUME(vfin.vs >= 1 && vfin.vs <= VMAX);

#if VF_OP == OP_CTOR
    /* base case: the constructor establishes the invariant (and is failure-atomic) */
    const int depth0 = 0;
    vf_failmask = vfin.failmask; vf_fail_from = vfin.failfrom;
    errno = 0;
    qhashtbl_t *tbl;
    CALL(tbl = qhashtbl(VF_R, opts));
    if (tbl == NULL) {
        VF_ASSERT(vf_alloc_failed, FP "ctor.ok: constructor succeeds when memory is available");
        VF_ASSERT(errno == ENOMEM, FP "ctor.errno: a failed constructor reports ENOMEM");
        VF_ASSERT(vf_live_blocks == 0, "C15.hashtbl.ctor.leak: a failed constructor releases everything it allocated");
        LOCKCHK("C14.hashtbl.ctor: constructor leaves the lock released");
        VF_COVER("ctor-failed");
    } else {
        VF_ASSERT(tbl->num == 0 && tbl->range == RANGE && tbl->slots != NULL, FP "ctor.state: new table is empty with the requested range (default range for 0)");
        for (size_t s = 0; s < (RANGE < 4 ? RANGE : 4); s++) VF_ASSERT(tbl->slots[s] == NULL, FP "ctor.slots: every slot of a new table is empty");
        VF_ASSERT((tbl->qmutex != NULL) == ((opts & QHASHTBL_THREADSAFE) != 0), FP "ctor.mutex: a mutex exists exactly when thread safety was requested");
        LOCKCHK("C14.hashtbl.ctor: constructor leaves the lock released");
        VF_ASSERT(tbl->size(tbl) == 0, FP "ctor.size: new table reports size 0");
#if VF_R != 0
        char *kb = vf_mkkey(vfin.klen, vfin.k);
        uint8_t *vb = vf_mkval(vfin.vs, vfin.v);
        bool ok = tbl->put(tbl, kb, vb, vfin.vs);
        VF_ASSERT(!vf_is_internal(tbl, kb) && !vf_is_internal(tbl, vb), "C12.hashtbl.in.private: the table keeps private copies, never the caller's key/value buffers");
        vf_scribble_free(vb, vfin.vs);
        size_t sz = 0;
        void *p = tbl->get(tbl, kb, &sz, false);
        VF_ASSERT(ok && p != NULL && sz == vfin.vs && vf_bytes_eq(p, vfin.v, vfin.vs) && tbl->size(tbl) == 1, FP "ctor.usable: first put on a new table can be read back");
        vf_scribble_free(kb, (size_t)vfin.klen + 1);
#endif
        tbl->free(tbl);
        LOCKCHK("C14.hashtbl.free: free() leaves the lock released");
        VF_ASSERT(vf_live_blocks == 0, "C11.hashtbl.leak: after free() every block the container allocated has been released");
    }
    VF_REACH("end");
    return;
#else
    /* ---------- pre-state ---------- */
    const long live_base = vf_live_blocks;
    qhashtbl_t *tbl = qhashtbl(VF_R, opts);
    VF_ASSUME(tbl != NULL);
    qhashtbl_obj_t *node[NCAP];
    for (int i = VF_N - 1; i >= 0; i--) {
        vfin.nk[i][0] = (uint8_t)i; /* keys distinct by construction: key i starts with letter i (see header) */
        VF_ASSUME(vf_keyspec_ok(vfin.nlen[i], vfin.nk[i]));
        VF_ASSUME(vfin.nvs[i] >= 1 && vfin.nvs[i] <= VMAX);
#if VF_OP == OP_GETINT
        VF_ASSUME(vfin.nv[i][vfin.nvs[i] - 1] == 0); /* getint is documented for values stored as strings */
#endif
        qhashtbl_obj_t *o = calloc(1, sizeof(qhashtbl_obj_t));
        VF_ASSUME(o != NULL);
        o->name = vf_mkkey(vfin.nlen[i], vfin.nk[i]);
        o->data = vf_mkval(vfin.nvs[i], vfin.nv[i]);
        o->size = vfin.nvs[i];
        o->hash = vf_hash(o->name, vfin.nlen[i]);
        VF_ASSUME(o->hash % VF_R == SLOT_OF(i));
        o->next = tbl->slots[SLOT_OF(i)]; /* built back to front: chain order = node index order */
        tbl->slots[SLOT_OF(i)] = o;
        node[i] = o;
        gcode[i] = (uint8_t)vf_speccode(vfin.nlen[i], vfin.nk[i]);
        ghash[i] = vfin.HT[gcode[i]];
        VF_ASSERT(ghash[i] == o->hash, "C05.stub.code: the stub hash of a key built from a specification is the table entry of its code");
        gslot[i] = SLOT_OF(i);
        for (size_t c = 0; c < VCAP; c++) gval[i][c] = c < vfin.nvs[i] ? vfin.nv[i][c] : 0;
        gsz[i] = vfin.nvs[i];
        gp[i] = true;
    }
    (void)node;
    tbl->num = VF_N;
    const size_t n0 = VF_N;
    const int depth0 = vf_lock_depth;
    void *ret_copy = NULL;
    size_t ret_copy_n = 0;
    bool mutated = false;
    const unsigned kcopy = vf_speccode(vfin.klen, vfin.k); /* the operation key as the ghost knows it */
    const int kj = vf_gfind(kcopy); /* ghost index of the key before the call, -1 = absent */
    vf_failmask = vfin.failmask; vf_fail_from = vfin.failfrom;
    errno = 0;

#if VF_OP == OP_PUT || VF_OP == OP_PUTSTR
    {
        char *kb = vf_mkkey(vfin.klen, vfin.k);
        uint8_t *vb = vf_mkval(vfin.vs, vfin.v);
        uint8_t want[VCAP];
        size_t wsz = vfin.vs;
        bool ok;
#if VF_OP == OP_PUTSTR
        vb[vfin.vs - 1] = 0; /* a string in an exactly sized block; embedded NULs allowed (shorter string) */
        wsz = 0;
        while (vb[wsz] != 0) wsz++;
        wsz++;
#endif
        for (size_t c = 0; c < VCAP; c++) want[c] = c < wsz ? vb[c] : 0;
#if VF_OP == OP_PUTSTR
        CALL(ok = tbl->putstr(tbl, kb, (char *)vb));
        LOCKCHK("C14.hashtbl.putstr: putstr() returns with the lock released");
#else
        CALL(ok = tbl->put(tbl, kb, vb, vfin.vs));
        LOCKCHK("C14.hashtbl.put: put() returns with the lock released");
#endif
        VF_ASSERT(!vf_is_internal(tbl, kb) && !vf_is_internal(tbl, vb), "C12.hashtbl.in.private: the table keeps private copies, never the caller's key/value buffers");
        vf_scribble_free(kb, (size_t)vfin.klen + 1);
        vf_scribble_free(vb, vfin.vs);
        if (ok) {
            vf_gput(kcopy, want, wsz);
            if (kj >= 0) VF_COVER("put-replace"); else VF_COVER("put-new");
        } else {
            VF_ASSERT(vf_alloc_failed, FP "put.accept: put of a valid key/value succeeds when memory is available");
            VF_ASSERT(errno == ENOMEM, FP "put.errno: a put that ran out of memory reports ENOMEM");
        }
        bool m = vf_matches(tbl);
        if (ok) VF_ASSERT(m, FP "put.effect: put maps the key to exactly the new bytes and length (new key: one more entry; existing key: replaced in place, count unchanged) and changes no other key");
        else VF_ASSERT(m, FP "put.refused: a failed put leaves the table unchanged");
        mutated = true;
    }
#elif VF_OP == OP_PUTINT
    {
        char *kb = vf_mkkey(vfin.klen, vfin.k);
        char want[VCAP];
        for (size_t c = 0; c < VCAP; c++) want[c] = 0;
        bool ok;
        CALL(ok = tbl->putint(tbl, kb, vfin.num));
        LOCKCHK("C14.hashtbl.putint: putint() returns with the lock released");
        VF_ASSERT(!vf_is_internal(tbl, kb), "C12.hashtbl.in.private: the table keeps private copies, never the caller's key/value buffers");
        vf_scribble_free(kb, (size_t)vfin.klen + 1);
        size_t wl = (size_t)vf_fmt_i64(want, sizeof(want), vfin.num);
        if (ok) vf_gput(kcopy, (const uint8_t *)want, wl + 1);
        else {
            VF_ASSERT(vf_alloc_failed, FP "putint.accept: putint succeeds when memory is available");
            VF_ASSERT(errno == ENOMEM, FP "putint.errno: a putint that ran out of memory reports ENOMEM");
        }
        bool m = vf_matches(tbl);
        if (ok) VF_ASSERT(m, FP "putint.effect: putint stores the decimal string (with its terminator) under the key and changes no other key");
        else VF_ASSERT(m, FP "putint.refused: a failed putint leaves the table unchanged");
        mutated = true;
    }
#elif VF_OP == OP_GET || VF_OP == OP_GETSTR
    {
        char *kb = vf_mkkey(vfin.klen, vfin.k);
        bool nm = vfin.newmem & 1;
        size_t sz = 12345;
        void *p;
#if VF_OP == OP_GET
        CALL(p = tbl->get(tbl, kb, &sz, nm));
        LOCKCHK("C14.hashtbl.get: get() returns with the lock released");
#else
        CALL(p = tbl->getstr(tbl, kb, nm));
        LOCKCHK("C14.hashtbl.getstr: getstr() returns with the lock released");
#endif
        if (p != NULL) {
            VF_ASSERT(kj >= 0, FP "get.absent: get of a key that is not stored finds nothing");
            if (kj >= 0) {
#if VF_OP == OP_GET
                VF_ASSERT(sz == gsz[kj], FP "get.size: get reports the exact length last put under the key");
#endif
                VF_ASSERT(vf_bytes_eq(p, gval[kj], gsz[kj]), FP "get.value: get returns exactly the bytes last put under the key");
                if (nm) {
                    VF_ASSERT(!vf_is_internal(tbl, p), "C12.hashtbl.get.copy: get with the copy flag returns an independent allocation");
                    VF_ASSERT(vf_bytes_eq(p, gval[kj], gsz[kj]), "C12.hashtbl.get.bytes: the copy holds the stored value byte for byte (embedded and trailing NULs included)");
#if VF_OP == OP_GET
                    VF_ASSERT(sz == gsz[kj], "C12.hashtbl.get.length: the copy is reported with the exact stored length");
#endif
                    ret_copy = p;
                    ret_copy_n = gsz[kj];
                }
            }
            VF_COVER("get-found");
        } else {
            VF_ASSERT(kj < 0 || vf_alloc_failed, FP "get.present: get of a stored key succeeds");
            if (kj < 0) VF_ASSERT(errno == ENOENT, FP "get.enoent: get of a missing key reports ENOENT");
            else VF_ASSERT(errno == ENOMEM, FP "get.enomem: a copying get that ran out of memory reports ENOMEM");
#if VF_OP == OP_GET
            VF_ASSERT(sz == 12345, FP "get.size.untouched: a failed get does not write the length");
#endif
            VF_COVER("get-null");
        }
        VF_ASSERT(vf_matches(tbl), FP "get.pure: get does not modify the table");
        vf_scribble_free(kb, (size_t)vfin.klen + 1);
    }
#elif VF_OP == OP_GETINT
    {
        char *kb = vf_mkkey(vfin.klen, vfin.k);
        int64_t r;
        CALL(r = tbl->getint(tbl, kb));
        LOCKCHK("C14.hashtbl.getint: getint() returns with the lock released");
        if (kj >= 0 && !vf_alloc_failed) VF_ASSERT(r == vf_atoll((const char *)gval[kj]), FP "getint.value: getint parses the string stored under the key");
        if (kj < 0) VF_ASSERT(r == 0 && errno == ENOENT, FP "getint.absent: getint of a missing key returns 0 and reports ENOENT");
        if (kj >= 0 && vf_alloc_failed) VF_ASSERT(r == 0 && errno == ENOMEM, FP "getint.enomem: getint that ran out of memory returns 0 and reports ENOMEM");
        VF_ASSERT(vf_matches(tbl), FP "getint.pure: getint does not modify the table");
        vf_scribble_free(kb, (size_t)vfin.klen + 1);
    }
#elif VF_OP == OP_REMOVE
    {
        char *kb = vf_mkkey(vfin.klen, vfin.k);
        bool ok;
        CALL(ok = tbl->remove(tbl, kb));
        LOCKCHK("C14.hashtbl.remove: remove() returns with the lock released");
        vf_scribble_free(kb, (size_t)vfin.klen + 1);
        VF_ASSERT(ok == (kj >= 0), FP "remove.iff: remove succeeds exactly for keys that are present");
        if (!ok) VF_ASSERT(errno == ENOENT, FP "remove.enoent: remove of a missing key reports ENOENT");
        if (ok && kj >= 0) gp[kj] = false;
        if (ok) { VF_COVER("remove-found"); } else { VF_COVER("remove-absent"); }
        VF_ASSERT(vf_matches(tbl), FP "remove.effect: remove unlinks exactly that key (head, middle or tail of its chain) and nothing else; a refused remove changes nothing");
        mutated = true;
    }
#elif VF_OP == OP_CLEAR
    {
        CALL(tbl->clear(tbl));
        LOCKCHK("C14.hashtbl.clear: clear() returns with the lock released");
        for (int j = 0; j < G; j++) gp[j] = false;
        VF_ASSERT(vf_matches(tbl), FP "clear.effect: clear empties every slot and resets the count");
        for (size_t s = 0; s < VF_R; s++) VF_ASSERT(tbl->slots[s] == NULL, FP "clear.slots: no slot keeps a pointer to a released chain");
        /* usable afterwards */
        char *kb = vf_mkkey(vfin.klen, vfin.k);
        uint8_t *vb = vf_mkval(vfin.vs, vfin.v);
        bool ok = tbl->put(tbl, kb, vb, vfin.vs);
        LOCKCHK("C14.hashtbl.put: put() returns with the lock released");
        vf_scribble_free(kb, (size_t)vfin.klen + 1);
        if (ok) vf_gput(kcopy, vb, vfin.vs);
        vf_scribble_free(vb, vfin.vs);
        VF_ASSERT(ok && vf_matches(tbl), FP "clear.usable: the table is usable after clear");
        mutated = true;
    }
#elif VF_OP == OP_SIZE
    {
        size_t r;
        CALL(r = tbl->size(tbl));
        LOCKCHK("C14.hashtbl.size: size() returns with the lock released");
        VF_ASSERT(r == n0, FP "size: size is the number of distinct keys");
        VF_ASSERT(vf_matches(tbl), FP "size.pure: size does not modify the table");
    }
#elif VF_OP == OP_WALK
    {
        qhashtbl_obj_t o;
        memset(&o, 0, sizeof(o));
        bool nm = vfin.newmem & 1;
        bool visited[G];
        for (int j = 0; j < G; j++) visited[j] = false;
        int depth_walk = depth0;
        if (vfin.uselock & 1) { /* the documented pattern: lock(); while (getnext()) ...; unlock(); */
            tbl->lock(tbl);
            VF_ASSERT(vf_lock_depth == depth0 + ((opts & QHASHTBL_THREADSAFE) ? 1 : 0), "C14.hashtbl.lock: lock() acquires exactly once on a thread-safe table and is a no-op otherwise");
            depth_walk = vf_lock_depth;
        }
        size_t k = 0;
        bool ended = false;
        for (; k < VF_N + 1; k++) {
            bool more;
            errno = 0;
            CALL(more = tbl->getnext(tbl, &o, nm));
            VF_ASSERT(vf_lock_depth == depth_walk, "C14.hashtbl.getnext: getnext() returns with the lock at the depth it had on entry");
            vf_lock_depth = depth_walk;
            if (!more) {
                ended = true;
                if (!vf_alloc_failed) VF_ASSERT(errno == ENOENT, FP "walk.enoent: the end of the walk is reported with ENOENT");
                else VF_ASSERT(errno == ENOMEM, FP "walk.enomem: a walk step that ran out of memory reports it");
                break;
            }
            int j = o.name != NULL ? vf_gfind(vf_strcode(o.name)) : -1;
            VF_ASSERT(j >= 0, FP "walk.member: the walk returns only stored keys");
            if (j >= 0) {
                VF_ASSERT(!visited[j], FP "walk.once: the walk returns no key twice");
                visited[j] = true;
                VF_ASSERT(o.data != NULL && o.size == gsz[j] && vf_bytes_eq(o.data, gval[j], gsz[j]), FP "walk.value: the walk returns every key with its value and length");
            }
            if (nm) {
                VF_ASSERT(!vf_is_internal(tbl, o.name) && !vf_is_internal(tbl, o.data), "C12.hashtbl.walk.copy: walk with the copy flag returns independent allocations");
                if (j >= 0) VF_ASSERT(o.data != NULL && o.size == gsz[j] && vf_bytes_eq(o.data, gval[j], gsz[j]), "C12.hashtbl.walk.bytes: the copies hold the stored value byte for byte with its exact length");
                free(o.name); /* documented: the caller releases name and data of every step, the cursor keeps hash/next */
                free(o.data);
            }
        }
        VF_ASSERT(ended, FP "walk.ends: after the last key the walk reports the end");
        VF_ASSERT(k == n0 || vf_alloc_failed, FP "walk.count: the walk returns each stored key exactly once and then ends");
        if (vfin.uselock & 1) {
            tbl->unlock(tbl);
        }
        LOCKCHK("C14.hashtbl.unlock: unlock() after the walk returns the lock to its depth before lock()");
        VF_ASSERT(vf_matches(tbl), FP "walk.pure: walking does not modify the table");
    }
#elif VF_OP == OP_DEBUG
    {
        static char vf_dummy_file;
        bool ok;
        CALL(ok = tbl->debug(tbl, (FILE *)(void *)&vf_dummy_file)); /* fprintf/_q_textout are stubbed: the stream is never touched */
        LOCKCHK("C14.hashtbl.debug: debug() returns with the lock released");
        VF_ASSERT(ok, FP "debug.ok: debug on a valid stream succeeds");
        VF_ASSERT(vf_matches(tbl), FP "debug.pure: debug does not modify the table");
    }
#elif VF_OP == OP_INVAL
    {
        /* the invalid-argument outcome class of every function that has one */
        char *kb = vf_mkkey(vfin.klen, vfin.k);
        uint8_t *vb = vf_mkval(vfin.vs, vfin.v);
        size_t sz = 12345;
        bool nm = vfin.newmem & 1;
        VF_ASSUME(vfin.variant <= 9);
        bool refused = false;
        int want_errno = EINVAL;
        switch (vfin.variant) {
        case 0: CALL(refused = !tbl->put(tbl, NULL, vb, vfin.vs)); break;
        case 1: CALL(refused = !tbl->put(tbl, kb, NULL, vfin.vs)); break;
        case 2: CALL(refused = !tbl->putstr(tbl, kb, NULL)); break;
        case 3: CALL(refused = tbl->get(tbl, NULL, &sz, nm) == NULL); break;
        case 4: CALL(refused = tbl->getstr(tbl, NULL, nm) == NULL); break;
        case 5: CALL(refused = !tbl->remove(tbl, NULL)); break;
        case 6: CALL(refused = !tbl->getnext(tbl, NULL, nm)); break;
        case 7: CALL(refused = !tbl->debug(tbl, NULL)); want_errno = EIO; break;
        case 8: CALL(refused = tbl->getint(tbl, NULL) == 0); break;
        default: CALL(refused = !tbl->putint(tbl, NULL, vfin.num)); break;
        }
        LOCKCHK("C14.hashtbl.inval: a call refused for an invalid argument returns with the lock released");
        VF_ASSERT(refused && errno == want_errno && sz == 12345, FP "inval.refused: NULL key/value/cursor/stream is refused with EINVAL (EIO for the stream)");
        VF_ASSERT(vf_matches(tbl), FP "inval.unchanged: a refused call leaves the table unchanged");
        vf_scribble_free(kb, (size_t)vfin.klen + 1);
        vf_scribble_free(vb, vfin.vs);
    }
#endif
    vf_alloc_active = 0;

    /* ---------- the ideal-map equation through the real accessor, for a universally quantified probe key ---------- */
#ifndef VF_PROBE
    mutated = false; /* the read-back through get() is implied by induction (walker + the GET queries); run where the driver asks */
#endif
    if (mutated) {
        char *qb = vf_mkkey(vfin.qlen, vfin.q);
        int qj = vf_gfind(vf_speccode(vfin.qlen, vfin.q)); /* ghost AFTER the operation: (q == k ? new : pre(q)) */
        size_t sz = 12345;
        errno = 0;
        void *p = tbl->get(tbl, qb, &sz, false);
        LOCKCHK("C14.hashtbl.get: get() returns with the lock released");
        if (qj >= 0) VF_ASSERT(p != NULL && sz == gsz[qj] && vf_bytes_eq(p, gval[qj], gsz[qj]), FP "probe.present: after the operation every key reads back as the ideal map says, bytes and length");
        else VF_ASSERT(p == NULL && errno == ENOENT, FP "probe.absent: after the operation a key the ideal map does not hold is not found");
        size_t r = tbl->size(tbl);
        LOCKCHK("C14.hashtbl.size: size() returns with the lock released");
        VF_ASSERT(r == vf_gcount(), FP "probe.size: size counts the distinct keys of the ideal map");
        vf_scribble_free(qb, (size_t)vfin.qlen + 1);
    }

    /* ---------- cross-cutting post-conditions ---------- */
#ifdef VF_ALLOCFAIL
    if (vf_alloc_failed) VF_COVER("alloc-failed");
#endif
    uint8_t keep[VCAP];
    for (size_t c = 0; c < VCAP; c++) keep[c] = (ret_copy && c < ret_copy_n) ? ((uint8_t *)ret_copy)[c] : 0;
    tbl->free(tbl);
    LOCKCHK("C14.hashtbl.free: free() returns with the lock released");
    if (ret_copy) {
        VF_ASSERT(vf_bytes_eq(ret_copy, keep, ret_copy_n), "C12.hashtbl.copy.survives: a returned copy stays intact after the container is released");
        free(ret_copy);
    }
    VF_ASSERT(vf_live_blocks == live_base, "C11.hashtbl.leak: after free() every block the container allocated has been released");
    VF_REACH("end");
#endif
}
#include "vf_main.h"
