/* Tree table (src/containers/qtreetbl.c): one API step from an arbitrary valid tree.
 *
 * Pre-state (constants per query, enumerated exhaustively by gen/llrb.py): one valid
 * 2-3-4 left-leaning red-black (shape, colouring) with VF_N nodes, nodes numbered by
 * in-order rank.  Keys are fixed by rank (first byte 2*rank+1: order isomorphism - the
 * code only ever looks at keys through the comparator), optional second key byte,
 * values, the operation key (first byte 0..2n: every present key and every gap),
 * operation value, flags, AND the traversal bookkeeping (tbl->tid, every node's tid,
 * every node's `next` link) are symbolic.
 * Post: contents == ideal sorted map (in-order walk by an independent walker), counts,
 * LLRB validity by an independent checker and by qtreetbl_check(), return values.
 * Properties: C01 (map), C02 (shape, lookup cost), C03 (walk), C04 (nearest),
 * C11/C12/C14/C15 modes as in vec.c.
 */
#include "vf.h"
#include "stubs.h"
/* byte-loop memcpy model (CBMC's built-in memcpy is imprecise when the source is one of several heap objects of
 * different sizes with a symbolic length: qmemdup of a value chosen by a symbolic key) */
#define VF_CN "tree"
#include "listmem.h"
#include "utilities/qstring.c"
#include "containers/qtreetbl.c"

#ifndef VF_N
#define VF_N 3
#define VF_ROOT 1
#define VF_LEFT {-1, 0, -1}
#define VF_RIGHT {-1, 2, -1}
#define VF_RED {0, 0, 0}
#define VF_HEIGHT 2
#endif
#define NN (VF_N > 0 ? VF_N : 1)
#define MM (VF_N + 1)
#ifndef VF_KSZ
#define VF_KSZ 1      /* size of the keys already in the tree (1 or 2) */
#endif
#ifndef VF_OPKSZ
#define VF_OPKSZ 1    /* size of the operation key (1 or 2) */
#endif
#ifndef VF_PDSZ
#define VF_PDSZ 2     /* size of the values already in the tree */
#endif
#ifndef VF_PDSZ_ODD
#define VF_PDSZ_ODD VF_PDSZ  /* size of the stored values of the odd-ranked keys (constant per query; lets neighbouring keys carry values of different lengths) */
#endif
#define PDMAX (VF_PDSZ > VF_PDSZ_ODD ? VF_PDSZ : VF_PDSZ_ODD)
#ifndef VF_DSZ
#define VF_DSZ 1      /* size of the value put by the operation */
#endif
#ifndef VF_CMP
#define VF_CMP 0      /* 0 default byte-wise order, 1 user comparator (same order, counts), 2 user comparator (reversed order) */
#endif
#ifndef VF_API
#define VF_API 0      /* 0 binary-key API (putobj/getobj/removeobj), 1 string-key API (put/get/remove, putstr/getstr) */
#endif
#ifndef VF_CMPBOUND
#define VF_CMPBOUND 64
#endif

#define OP_PUT 1
#define OP_REMOVE 2
#define OP_GET 3
#define OP_MIN 4
#define OP_MAX 5
#define OP_SIZE 6
#define OP_CLEAR 7
#define OP_CTOR 8
#define OP_WALK 9       /* C03: complete walk, twice */
#define OP_WALK_AFTER 10 /* C03: abandon a walk after j steps, one put/remove, complete walk */
#define OP_NEAREST 11   /* C04 */
#define OP_SELFCHECK 12 /* C02: qtreetbl_check() agrees with the independent checker on a given (possibly invalid) coloured tree */

#ifdef VF_ALLOCFAIL
#define VF_AF 1
#define FP "C15.tree."
#ifdef VF_SHAPE_OWNER_C02
#define FP2 "C02."       /* C02 itself says: valid after every operation, whether it succeeded or FAILED */
#else
#define FP2 "C15.tree."
#endif
#else
#define VF_AF 0
#ifdef VF_C12
#define FP "C12.tree.stored." /* C12: stored values are returned byte-for-byte with their exact length */
#else
#define FP "C01."
#endif
#define FP2 "C02."
#endif
#define CALL(stmt) do { vf_alloc_active = VF_AF; stmt; vf_alloc_active = 0; } while (0)

struct vf_input {
    uint8_t k2[NN];          /* second key byte of the stored keys (VF_KSZ==2) */
    uint8_t pv[NN][PDMAX]; /* stored values */
    uint8_t ttid, tid[NN];   /* traversal epoch of the table and stamps of the nodes */
    int8_t nx[NN];           /* `next` link of each node: -1 NULL, else node index */
    uint8_t k, k1;           /* operation key */
    uint8_t v[VF_DSZ > 0 ? VF_DSZ : 1];
    uint8_t newmem, which;
    uint8_t steps;           /* OP_WALK_AFTER: abandon after this many getnext calls */
    unsigned failmask;
    int8_t failfrom;
};
extern struct vf_input vfin;

static const int8_t T_LEFT[NN] = VF_LEFT, T_RIGHT[NN] = VF_RIGHT;
static const uint8_t T_RED[NN] = VF_RED;
static qtreetbl_obj_t *nd[NN];

/* ---------- ideal sorted map (in comparator order) ---------- */
/* parallel plain arrays (NOT an array of structs with array members: CBMC 6.11 mis-reads those through
 * byte pointers at symbolic indexes) */
static uint8_t ikey[MM][2], ival[MM][3];
static size_t iklen[MM], ivlen[MM];
static size_t imn;

/* reference order: lexicographic by unsigned bytes, then shorter first (written from the documentation) */
static int ref_cmp(const uint8_t *a, size_t al, const uint8_t *b, size_t bl) {
    size_t m = al < bl ? al : bl;
    for (size_t i = 0; i < 2; i++)
        if (i < m && a[i] != b[i]) return a[i] < b[i] ? -1 : 1;
    return al == bl ? 0 : (al < bl ? -1 : 1);
}
static int ord(const uint8_t *a, size_t al, const uint8_t *b, size_t bl) {
#if VF_CMP == 2
    return -ref_cmp(a, al, b, bl);
#else
    return ref_cmp(a, al, b, bl);
#endif
}
static unsigned vf_cmp_calls;
static int vf_user_cmp(const void *n1, size_t s1, const void *n2, size_t s2) {
    vf_cmp_calls++;
    return ord(n1, s1, n2, s2);
}
static bool key_eq(size_t j, const uint8_t *k, size_t kl) {
    return iklen[j] == kl && ikey[j][0] == k[0] && (kl < 2 || ikey[j][1] == k[1]);
}
static long im_find(const uint8_t *k, size_t kl) {
    for (size_t j = 0; j < MM; j++)
        if (j < imn && key_eq(j, k, kl)) return (long)j;
    return -1;
}
static void im_put(const uint8_t *k, size_t kl, const uint8_t *v, size_t vl) {
    long j = im_find(k, kl);
    if (j < 0) {
        size_t pos = 0;
        for (size_t i = 0; i < MM; i++)
            if (i < imn && ord(ikey[i], iklen[i], k, kl) < 0) pos = i + 1;
        for (size_t i = MM - 1; i > 0; i--)
            if (i > pos) {
                ikey[i][0] = ikey[i - 1][0]; ikey[i][1] = ikey[i - 1][1]; iklen[i] = iklen[i - 1];
                ival[i][0] = ival[i - 1][0]; ival[i][1] = ival[i - 1][1]; ival[i][2] = ival[i - 1][2]; ivlen[i] = ivlen[i - 1];
            }
        for (size_t i = 0; i < MM; i++)
            if (i == pos) { ikey[i][0] = k[0]; ikey[i][1] = kl > 1 ? k[1] : 0; iklen[i] = kl; }
        imn++;
        j = (long)pos;
    }
    for (size_t i = 0; i < MM; i++)
        if ((long)i == j) {
            for (size_t b = 0; b < 3; b++) ival[i][b] = b < vl ? v[b] : 0;
            ivlen[i] = vl;
        }
}
static bool im_remove(const uint8_t *k, size_t kl) {
    long j = im_find(k, kl);
    if (j < 0) return false;
    for (size_t i = 0; i + 1 < MM; i++)
        if ((long)i >= j) {
            ikey[i][0] = ikey[i + 1][0]; ikey[i][1] = ikey[i + 1][1]; iklen[i] = iklen[i + 1];
            ival[i][0] = ival[i + 1][0]; ival[i][1] = ival[i + 1][1]; ival[i][2] = ival[i + 1][2]; ivlen[i] = ivlen[i + 1];
        }
    imn--;
    return true;
}

/* ---------- independent walker and shape checker ---------- */
static qtreetbl_obj_t *seq[MM + 1];
static size_t seqn;
static bool seq_overflow;
#define MAXDEPTH (VF_HEIGHT + 3)
/* independent iterative in-order walk (explicit stack, bounded number of steps); also records, for the
 * shape check, the black depth of every NULL link and local colour-rule violations */
static bool shape_bad;      /* red node with red child, or right-leaning lone red link */
static int leaf_bd_first, leaf_bd_mismatch;
static void walk_inorder(qtreetbl_obj_t *root) {
    qtreetbl_obj_t *stack[MAXDEPTH + 1];
    int bd[MAXDEPTH + 1];
    int sp = 0, curbd = 0;
    qtreetbl_obj_t *cur = root;
    seqn = 0; seq_overflow = false; shape_bad = false; leaf_bd_first = -1; leaf_bd_mismatch = 0;
    for (size_t step = 0; step < 2 * (MM + 1) + 2; step++) {
        if (cur != NULL) {
            if (sp > MAXDEPTH) { seq_overflow = true; break; }
            bool lr = cur->left && cur->left->red, rr = cur->right && cur->right->red;
            if ((cur->red && (lr || rr)) || (rr && !lr)) shape_bad = true;
            curbd += cur->red ? 0 : 1;
            stack[sp] = cur; bd[sp] = curbd; sp++;
            cur = cur->left;
        } else {
            /* reached a NULL link at black depth curbd */
            if (leaf_bd_first < 0) leaf_bd_first = curbd; else if (curbd != leaf_bd_first) leaf_bd_mismatch = 1;
            if (sp == 0) break;
            sp--;
            cur = stack[sp]; curbd = bd[sp];
            if (seqn < MM + 1) seq[seqn++] = cur; else { seq_overflow = true; break; }
            cur = cur->right;
        }
    }
    if (cur != NULL || sp != 0) seq_overflow = true; /* did not finish within the step bound */
}
static bool bytes_eq(const void *p, const uint8_t *w, size_t n) {
    for (size_t i = 0; i < 3; i++)
        if (i < n && ((const uint8_t *)p)[i] != w[i]) return false;
    return true;
}
/* tree contents == ideal map: same keys in comparator order, same values, same sizes, num exact */
static bool tree_matches(qtreetbl_t *t) {
    walk_inorder(t->root);
    if (seq_overflow || seqn != imn || t->num != imn) return false;
    for (size_t j = 0; j < MM; j++) {
        if (j >= imn) continue;
        qtreetbl_obj_t *o = seq[j];
        if (o->namesize != iklen[j] || !bytes_eq(o->name, ikey[j], iklen[j])) return false;
        if (o->datasize != ivlen[j]) return false;
        if (ivlen[j] > 0 && (o->data == NULL || !bytes_eq(o->data, ival[j], ivlen[j]))) return false;
    }
    return true;
}
/* independent LLRB (2-3-4) checker built on the iterative walk */
static bool llrb_valid(qtreetbl_t *t) {
    if (t->root && t->root->red) return false;
    walk_inorder(t->root);
    return !seq_overflow && !shape_bad && !leaf_bd_mismatch;
}

static uint8_t rank_key(size_t r) {
#if VF_CMP == 2
    return (uint8_t)(2 * (VF_N - 1 - r) + 1);
#else
    return (uint8_t)(2 * r + 1);
#endif
}

static qtreetbl_t *vf_cur;
static uint8_t *caller_buf(const uint8_t *src, size_t n) {
    if (n == 0) return NULL;
    uint8_t *b = malloc(n);
    VF_ASSUME(b != NULL);
    for (size_t i = 0; i < n; i++) b[i] = src[i];
    return b;
}
/* C12: snapshot, scribble + free the caller's buffer, container must be unchanged */
static void scribble_free(uint8_t *b, size_t n) {
    if (b == NULL) return;
    uint8_t skey[MM][2], sval[MM][3]; size_t sklen[MM], svlen[MM]; size_t sn = 0;
#ifndef VF_COPYCHK
    /* the snapshot comparison is only compiled into the C12 queries; elsewhere just scribble and free */
    for (size_t i = 0; i < n; i++) b[i] = (uint8_t)~b[i];
    free(b);
    return;
#endif
    seqn = 0;
    if (vf_cur) walk_inorder(vf_cur->root);
    sn = seqn;
    for (size_t j = 0; j < MM; j++) {
        if (j >= sn) continue;
        sklen[j] = seq[j]->namesize; svlen[j] = seq[j]->datasize;
        for (size_t i = 0; i < 2; i++) skey[j][i] = i < seq[j]->namesize ? ((uint8_t *)seq[j]->name)[i] : 0;
        for (size_t i = 0; i < 3; i++) sval[j][i] = (seq[j]->data && i < seq[j]->datasize) ? ((uint8_t *)seq[j]->data)[i] : 0;
    }
    for (size_t i = 0; i < n; i++) b[i] = (uint8_t)~b[i];
    free(b);
    for (size_t j = 0; j < MM; j++) {
        if (j >= sn) continue;
        VF_ASSERT(seq[j]->namesize == sklen[j] && bytes_eq(seq[j]->name, skey[j], sklen[j] > 2 ? 2 : sklen[j]) &&
                  seq[j]->datasize == svlen[j] && (svlen[j] == 0 || bytes_eq(seq[j]->data, sval[j], svlen[j] > 3 ? 3 : svlen[j])),
                  "C12.tree.in.private: overwriting/freeing the caller's key and value buffers after put does not change the table");
    }
}

static void build_prestate(qtreetbl_t *t) {
    for (size_t i = 0; i < VF_N; i++) {
        qtreetbl_obj_t *o = calloc(1, sizeof(*o));
        const size_t pds = (i & 1) ? VF_PDSZ_ODD : VF_PDSZ;
        uint8_t *nm = malloc(VF_KSZ), *dt = (i & 1) ? malloc(VF_PDSZ_ODD) : malloc(VF_PDSZ);
        VF_ASSUME(o != NULL && nm != NULL && dt != NULL);
        nm[0] = rank_key(i);
#if VF_KSZ == 2
#if VF_API == 1
        nm[1] = 0;
#else
        nm[1] = vfin.k2[i];
#endif
#endif
        for (size_t b = 0; b < PDMAX; b++) if (b < pds) dt[b] = vfin.pv[i][b];
        o->name = nm; o->namesize = VF_KSZ; o->data = dt; o->datasize = pds;
        o->red = T_RED[i];
        o->tid = vfin.tid[i];
        nd[i] = o;
        ikey[i][0] = nm[0]; ikey[i][1] = VF_KSZ > 1 ? nm[1] : 0; iklen[i] = VF_KSZ;
        for (size_t b = 0; b < 3; b++) ival[i][b] = b < pds ? dt[b] : 0;
        ivlen[i] = pds;
    }
    imn = VF_N;
    for (size_t i = 0; i < VF_N; i++) {
        nd[i]->left = T_LEFT[i] < 0 ? NULL : nd[T_LEFT[i]];
        nd[i]->right = T_RIGHT[i] < 0 ? NULL : nd[T_RIGHT[i]];
        VF_ASSUME(vfin.nx[i] >= -1 && vfin.nx[i] < VF_N);
        nd[i]->next = vfin.nx[i] < 0 ? NULL : nd[vfin.nx[i]];
    }
    t->root = VF_ROOT < 0 ? NULL : nd[VF_ROOT < 0 ? 0 : VF_ROOT];
    t->num = VF_N;
    t->tid = vfin.ttid;
}

/* representation invariant of the traversal bookkeeping: no node carries a stamp from the future.
 * Established by the constructor (epoch 1, fresh nodes 0) and to be preserved by every operation. */
static bool tid_inv(qtreetbl_t *t) {
    walk_inorder(t->root);
    for (size_t j = 0; j < MM + 1; j++)
        if (j < seqn && seq[j]->tid > t->tid) return false;
    return true;
}

void vf_harness(void) {
#ifdef VF_FAILMASK
    vfin.failmask = VF_FAILMASK;
#endif
#ifdef VF_FAILFROM
    vfin.failfrom = VF_FAILFROM;
#else
    vfin.failfrom = -1;
#endif
    vf_failmask = vfin.failmask; vf_fail_from = vfin.failfrom;
    const long live_base = vf_live_blocks;
    int opts = 0;
#ifdef VF_TS
    opts |= QTREETBL_THREADSAFE;
#endif

#if VF_OP == OP_CTOR
    qtreetbl_t *t;
    CALL(t = qtreetbl(opts));
    if (t == NULL) {
        VF_ASSERT(vf_alloc_failed, FP "ctor.ok: constructor succeeds when memory is available");
        VF_ASSERT(vf_live_blocks == live_base, "C15.tree.ctor.leak: a failed constructor releases everything it allocated");
    } else {
        VF_ASSERT(t->root == NULL && t->num == 0 && t->size(t) == 0, FP "ctor.empty: new table is the empty map");
        VF_ASSERT(llrb_valid(t) && qtreetbl_check(t) == 0, FP2 "ctor.shape: empty tree is valid");
        VF_ASSERT(tid_inv(t) && t->tid >= 1, "C03.ctor.epoch: constructor establishes the traversal invariant");
        VF_ASSERT(vf_lock_depth == 0, "C14.tree.ctor: constructor leaves the lock released");
        uint8_t k[2] = {vfin.k, 0};
        uint8_t *kb = caller_buf(k, VF_OPKSZ), *vb = caller_buf(vfin.v, VF_DSZ);
        vf_cur = t;
        bool ok = t->putobj(t, kb, VF_OPKSZ, vb, VF_DSZ);
        scribble_free(kb, VF_OPKSZ); scribble_free(vb, VF_DSZ);
        im_put(k, VF_OPKSZ, vfin.v, VF_DSZ);
        VF_ASSERT(ok && tree_matches(t), FP "ctor.usable: first put on a new table works");
        t->free(t);
        VF_ASSERT(vf_live_blocks == live_base, "C11.tree.leak: after free() every block the table allocated has been released");
    }
    VF_REACH("end");
    return;
#else
    qtreetbl_t *t = qtreetbl(opts);
    VF_ASSUME(t != NULL);
    vf_cur = t;
#if VF_CMP != 0
    t->set_compare(t, vf_user_cmp);
#endif
    build_prestate(t);
    const size_t n0 = VF_N;
    const int depth0 = vf_lock_depth;
    void *ret_copy = NULL, *ret_copy2 = NULL;
    size_t ret_len = 0;
    uint8_t keep[4];

#ifdef VF_TIDCHK
    VF_ASSUME(tid_inv(t));
#endif
    uint8_t opk[2];
    opk[0] = vfin.k;
#if VF_API == 1
    opk[1] = 0;
    VF_ASSUME(vfin.k >= 1);
#else
    opk[1] = vfin.k1;
#endif
    VF_ASSUME(vfin.k <= 2 * VF_N + 1);
    errno = 0;

#if VF_OP == OP_PUT
    {
        uint8_t *kb = caller_buf(opk, VF_OPKSZ), *vb = caller_buf(vfin.v, VF_DSZ);
        bool ok;
#if VF_API == 1
        CALL(ok = t->put(t, (const char *)kb, vb, VF_DSZ));
#else
        CALL(ok = t->putobj(t, kb, VF_OPKSZ, vb, VF_DSZ));
#endif
        scribble_free(kb, VF_OPKSZ); scribble_free(vb, VF_DSZ);
        if (ok) {
            im_put(opk, VF_OPKSZ, vfin.v, VF_DSZ);
            VF_COVER("put-ok");
        } else {
            VF_ASSERT(vf_alloc_failed, FP "put.ok: put succeeds when memory is available");
            VF_COVER("put-failed");
        }
        if (ok) VF_ASSERT(tree_matches(t), FP "put.effect: put inserts or replaces exactly that key; every other key keeps its value; size is the number of distinct keys");
        else VF_ASSERT(tree_matches(t), FP "put.failed.unchanged: a put that reports failure leaves keys, values and count as they were");
    }
#elif VF_OP == OP_REMOVE
    {
        uint8_t *kb = caller_buf(opk, VF_OPKSZ);
        bool ok;
#if VF_API == 1
        CALL(ok = t->remove(t, (const char *)kb));
#else
        CALL(ok = t->removeobj(t, kb, VF_OPKSZ));
#endif
        scribble_free(kb, VF_OPKSZ);
        bool present = im_find(opk, VF_OPKSZ) >= 0;
        if (!vf_alloc_failed) VF_ASSERT(ok == present, FP "remove.ret: remove succeeds exactly when an equal key is present");
        if (ok) im_remove(opk, VF_OPKSZ);
        if (ok) VF_ASSERT(tree_matches(t), FP "remove.effect: remove deletes only that key");
        else VF_ASSERT(tree_matches(t), FP "remove.absent.unchanged: a failed remove leaves the table as it was");
        if (present) VF_COVER("remove-present"); else VF_COVER("remove-absent");
    }
#elif VF_OP == OP_GET
    {
        uint8_t *kb = caller_buf(opk, VF_OPKSZ);
        size_t dsz = 777;
        bool nm = vfin.newmem & 1;
        void *p;
        vf_cmp_calls = 0;
#if VF_API == 1
        CALL(p = t->get(t, (const char *)kb, &dsz, nm));
#else
        CALL(p = t->getobj(t, kb, VF_OPKSZ, &dsz, nm));
#endif
        unsigned calls = vf_cmp_calls;
        scribble_free(kb, VF_OPKSZ);
        long j = im_find(opk, VF_OPKSZ);
        if (p != NULL) {
            VF_ASSERT(j >= 0, FP "get.absent: get of an absent key returns nothing");
            VF_ASSERT(dsz == ivlen[j] && bytes_eq(p, ival[j], ivlen[j]), FP "get.value: get returns the bytes and length most recently put under an equal key");
            if (nm) {
                for (size_t i = 0; i < VF_N; i++) VF_ASSERT(!VF_SAME_OBJECT(p, nd[i]->data), "C12.tree.get.copy: get with the copy flag returns an independent allocation");
                ret_copy = p; ret_len = dsz;
            }
            VF_COVER("get-hit");
        } else {
            VF_ASSERT(j < 0 || vf_alloc_failed, FP "get.present: get of a present key returns its value");
            VF_COVER("get-miss");
        }
#if VF_CMP != 0
        VF_ASSERT(calls <= VF_CMPBOUND, "C02.lookup.cost: a lookup among n keys performs at most 2*log2(n+1) key comparisons");
#endif
        (void)calls;
        VF_ASSERT(tree_matches(t), FP "get.pure: get does not modify the table");
    }
#elif VF_OP == OP_MIN || VF_OP == OP_MAX
    {
        size_t ns = 777;
        void *p;
#if VF_OP == OP_MIN
        CALL(p = t->find_min(t, &ns));
        const size_t want = 0;
#else
        CALL(p = t->find_max(t, &ns));
        const size_t want = n0 > 0 ? n0 - 1 : 0;
#endif
        if (p != NULL) {
            VF_ASSERT(n0 > 0 && ns == iklen[want] && bytes_eq(p, ikey[want], iklen[want]), FP "minmax.value: find-min/find-max return the least/greatest present key");
            for (size_t i = 0; i < VF_N; i++) VF_ASSERT(!VF_SAME_OBJECT(p, nd[i]->name), "C12.tree.minmax.copy: find-min/max return an independent allocation");
            ret_copy = p; ret_len = ns;
        } else {
            VF_ASSERT(n0 == 0 || vf_alloc_failed, FP "minmax.nonempty: find-min/find-max succeed on a non-empty table");
        }
        VF_ASSERT(tree_matches(t), FP "minmax.pure: find-min/max do not modify the table");
    }
#elif VF_OP == OP_SIZE
    {
        VF_ASSERT(t->size(t) == n0, FP "size: size equals the number of distinct keys");
    }
#elif VF_OP == OP_CLEAR
    {
        CALL(t->clear(t));
        imn = 0;
        VF_ASSERT(tree_matches(t) && t->size(t) == 0, FP "clear: clear empties the table");
        uint8_t *kb = caller_buf(opk, VF_OPKSZ), *vb = caller_buf(vfin.v, VF_DSZ);
        bool ok = t->putobj(t, kb, VF_OPKSZ, vb, VF_DSZ);
        scribble_free(kb, VF_OPKSZ); scribble_free(vb, VF_DSZ);
        im_put(opk, VF_OPKSZ, vfin.v, VF_DSZ);
        VF_ASSERT(ok && tree_matches(t), FP "clear.usable: table usable after clear");
    }
#elif VF_OP == OP_WALK
    {
        VF_ASSUME(tid_inv(t));   /* representation invariant of the epoch stamps (see tid_inv) */
        bool nm = vfin.newmem & 1;
        for (int round = 0; round < 2; round++) {
            qtreetbl_obj_t c;
            memset(&c, 0, sizeof(c));
            size_t cnt = 0;
            bool retried = false;
            for (size_t s = 0; s < MM + 1; s++) {
                bool more;
                errno = 0;
                CALL(more = t->getnext(t, &c, nm));
#if VF_AF
                if (!more && errno == ENOMEM && !retried) {
                    /* a step refused for lack of memory must not have consumed the key: the same cursor, retried once memory is
                     * available again, continues the walk at the same position (qtreetbl.c: "not stamped yet, so this key is
                     * returned by a retry") - i.e. the failed call left the traversal bookkeeping of the container unchanged */
                    retried = true;
                    vf_failmask = 0; vf_fail_from = -1;
                    CALL(more = t->getnext(t, &c, nm));
                    VF_ASSERT(more == (cnt < imn), "C15.tree.walk.retry: after a step failed with ENOMEM a retry with the same cursor continues the walk (the failed step consumed no key)");
                }
#endif
                if (!more) break;
                VF_ASSERT(c.name != NULL && (c.data != NULL || c.datasize == 0), "C15.tree.walk.copies: a walk step that returns true delivers its copies (allocation failure is reported, not hidden)");
                VF_ASSERT(cnt < imn, "C03.walk.count: the walk returns no more results than there are keys");
                if (cnt < imn) {
                    VF_ASSERT(c.namesize == iklen[cnt] && bytes_eq(c.name, ikey[cnt], iklen[cnt]), "C03.walk.order: the walk returns the keys in strictly ascending order, each exactly once");
                    VF_ASSERT(c.datasize == ivlen[cnt] && bytes_eq(c.data, ival[cnt], ivlen[cnt]), "C03.walk.value: each key comes with its current value and sizes");
                }
                if (nm) { free(c.name); free(c.data); }
                cnt++;
            }
            if (!vf_alloc_failed) VF_ASSERT(cnt == imn, "C03.walk.complete: the walk returns every stored key and then reports the end");
#if VF_AF
            if (retried && vf_failmask == 0 && vf_fail_from < 0 && round == 0)
                VF_ASSERT(cnt == imn, "C15.tree.walk.retry.complete: a walk that was retried after one ENOMEM step still returns every stored key exactly once");
#endif
            VF_ASSERT(tid_inv(t), "C03.inv.walk: a complete walk preserves the traversal invariant");
            if (!vf_alloc_failed) {
                /* a walk that ran to its end leaves the table in the "no walk unfinished" state: no node is stamped with the
                 * current epoch.  The continuation clause of C04 (find_nearest cursor + getnext visits every key) starts from it. */
                bool clean = true;
                for (size_t i = 0; i < VF_N; i++) if (nd[i]->tid == t->tid) clean = false;
                VF_ASSERT(clean, "C04.cont.pre: a walk that ran to its end leaves no node stamped with the current epoch, so that a search cursor obtained afterwards can be continued over every key");
            }
        }
        VF_ASSERT(tree_matches(t), "C03.walk.pure: walking does not change keys, values or count");
    }
#elif VF_OP == OP_WALK_AFTER
    {
        /* a walk abandoned after `steps` results: preserves the traversal invariant and the contents, so that
         * (together with put/remove/nearest preserving it) any later walk starts from a state covered by OP_WALK */
        VF_ASSUME(tid_inv(t));
        qtreetbl_obj_t c0;
        memset(&c0, 0, sizeof(c0));
        VF_ASSUME(vfin.steps <= VF_N);
        for (size_t s = 0; s < VF_N; s++)
            if (s < vfin.steps) {
                bool more = t->getnext(t, &c0, false);
                VF_ASSERT(more && c0.namesize == iklen[s] && bytes_eq(c0.name, ikey[s], iklen[s]), "C03.partial.order: a walk returns the keys in ascending order up to the point where it is abandoned");
            }
        VF_ASSERT(tid_inv(t), "C03.inv.partial: an abandoned walk preserves the traversal invariant");
        VF_ASSERT(tree_matches(t), "C03.partial.pure: an abandoned walk does not change keys, values or count");
    }
#elif VF_OP == OP_SELFCHECK
    {
#ifndef VF_VALID
#define VF_VALID 1
#endif
        bool mine = llrb_valid(t);
        int lib = qtreetbl_check(t);
        VF_ASSERT(mine == (VF_VALID != 0), "C02.selfcheck.oracle: the independent checker classifies this coloured tree as the generator does");
        VF_ASSERT((lib == 0) == (VF_VALID != 0), "C02.selfcheck.agree: the library's qtreetbl_check() accepts exactly the valid left-leaning red-black trees");
        t->root = NULL; t->num = 0; /* the (possibly invalid) tree is released by hand below */
        for (size_t i = 0; i < VF_N; i++) { free(nd[i]->name); free(nd[i]->data); free(nd[i]); }
        imn = 0;
    }
#elif VF_OP == OP_NEAREST
    {
        VF_ASSUME(tid_inv(t));
        uint8_t *kb = caller_buf(opk, VF_OPKSZ);
        bool nm = vfin.newmem & 1;
        qtreetbl_obj_t r;
        CALL(r = t->find_nearest(t, kb, VF_OPKSZ, nm));
        scribble_free(kb, VF_OPKSZ);
        /* expected: equal key, else greatest smaller, else smallest */
        long want = -1;
        for (size_t j = 0; j < MM; j++)
            if (j < imn && ord(ikey[j], iklen[j], opk, VF_OPKSZ) <= 0) want = (long)j;
        if (want < 0 && imn > 0) want = 0;
        if (vf_alloc_failed) VF_ASSERT(r.name != NULL || r.data == NULL, "C15.tree.nearest.copies: a failed copy is reported with an empty object, nothing half-delivered");
        if (imn == 0) {
            VF_ASSERT(r.name == NULL, "C04.nearest.empty: nearest-key search on an empty table reports not-found");
        } else if (!vf_alloc_failed) {
            VF_ASSERT(r.name != NULL && r.namesize == iklen[want] && bytes_eq(r.name, ikey[want], iklen[want]),
                      "C04.nearest.floor: returns the equal key, else the greatest smaller key, else the smallest key");
            VF_ASSERT(r.datasize == ivlen[want] && (r.data == NULL ? ivlen[want] == 0 : bytes_eq(r.data, ival[want], ivlen[want])), "C04.nearest.value: the returned object carries that key's value");
        }
        if (nm && r.name) {
            for (size_t i = 0; i < VF_N; i++) VF_ASSERT(!VF_SAME_OBJECT(r.name, nd[i]->name) && !VF_SAME_OBJECT(r.data, nd[i]->data), "C12.tree.nearest.copy: nearest with the copy flag returns independent allocations");
            free(r.name); free(r.data);
        }
        VF_ASSERT(tree_matches(t), "C04.nearest.pure: the search does not change keys, values or count");
        /* continuation: when no walk has been left unfinished (no node carries the current epoch),
         * getnext from the returned cursor visits every key exactly once, then ends */
        bool finished = true;
        for (size_t i = 0; i < VF_N; i++) if (nd[i]->tid == t->tid) finished = false;
        if (finished && imn > 0 && !vf_alloc_failed) {
            VF_COVER("continuation");
            uint8_t seen[MM];
            memset(seen, 0, sizeof(seen));
            size_t cnt = 0;
            qtreetbl_obj_t c = r;
            for (size_t s = 0; s < MM + 1; s++) {
                if (!t->getnext(t, &c, false)) break;
                long j = im_find(c.name, c.namesize);
                VF_ASSERT(j >= 0 && !seen[j], "C04.cont.once: continuing with getnext visits no key twice and only stored keys");
                if (j >= 0) seen[j] = 1;
                cnt++;
            }
            VF_ASSERT(cnt == imn, "C04.cont.all: continuing with getnext from the returned cursor visits every stored key, then ends");
        }
    }
#endif
    vf_alloc_active = 0;
#ifdef VF_TIDCHK
    VF_ASSERT(tid_inv(t), "C03.inv.mod: put/remove/search preserve the traversal invariant (no node stamp exceeds the table epoch)");
#endif

    /* ---------- cross-cutting ---------- */
#ifdef VF_SHAPECHK
    VF_ASSERT(llrb_valid(t), FP2 "shape.llrb: after the operation the tree is a valid left-leaning red-black tree (black root, no red-red, equal black height, no right-leaning lone red)");
#ifdef VF_LIBCHK
    VF_ASSERT(qtreetbl_check(t) == 0, FP2 "shape.selfcheck: the library's qtreetbl_check() agrees");
#endif
#endif
    VF_ASSERT(vf_lock_depth == depth0, "C14.tree.lock: the operation returns with the table lock released");
    (void)n0;
    if (ret_copy) for (size_t i = 0; i < 4; i++) keep[i] = i < ret_len ? ((uint8_t *)ret_copy)[i] : 0;
    t->free(t);
    if (ret_copy) {
        VF_ASSERT(bytes_eq(ret_copy, keep, ret_len > 3 ? 3 : ret_len), "C12.tree.copy.survives: a returned copy stays intact after the table is released");
        free(ret_copy);
    }
    (void)ret_copy2;
    VF_ASSERT(vf_live_blocks == live_base, "C11.tree.leak: after free() every block the table allocated has been released");
    VF_REACH("end");
#endif
}
#include "vf_main.h"
