/* C18: hash functions of src/utilities/qhash.c vs independent references.
 * One algorithm (VF_ALG) and one concrete length VF_N per query; all bytes symbolic;
 * input lives in an exactly sized heap object (reads outside it are pointer-check
 * failures).  VF_NOEQ: only memory safety is checked (SAT); otherwise only
 * equality (SMT back end). */
#include "vf.h"
#include <stdio.h>
#include "utilities/qhash.c"
#include "hashref.h"
#define FNV32 1
#define FNV64 2
#define MUR32 3
#define MUR128 4
#ifndef VF_N
#define VF_N 5
#endif

struct vf_input { uint8_t b[VF_N]; };
extern struct vf_input vfin;

void vf_harness(void) {
    const size_t n = VF_N;
#ifndef VF_OFF
#define VF_OFF 0
#endif
    /* VF_OFF > 0: the message starts VF_OFF bytes into its heap object, i.e. at an address that is not a multiple of 8
     * (results must not depend on the buffer's alignment); the object still ends exactly at the last message byte */
    uint8_t *base = malloc(n + VF_OFF);
    VF_ASSUME(base != NULL);
    uint8_t *buf = base + VF_OFF;
    for (size_t i = 0; i < n; i++) buf[i] = vfin.b[i];
#if VF_ALG == FNV32
    uint32_t got = qhashfnv1_32(buf, n);
#ifndef VF_NOEQ
    VF_ASSERT(got == ref_fnv1_32(vfin.b, n), "C18.fnv32: qhashfnv1_32 equals 32-bit FNV-1");
#endif
#elif VF_ALG == FNV64
    uint64_t got = qhashfnv1_64(buf, n);
#ifndef VF_NOEQ
    VF_ASSERT(got == ref_fnv1_64(vfin.b, n), "C18.fnv64: qhashfnv1_64 equals 64-bit FNV-1");
#endif
#elif VF_ALG == MUR32
    uint32_t got = qhashmurmur3_32(buf, n);
#ifndef VF_NOEQ
    VF_ASSERT(got == ref_murmur3_32(vfin.b, n), "C18.murmur32: qhashmurmur3_32 equals MurmurHash3_x86_32 seed 0");
#endif
#else
    uint64_t got[2], want[2];
    bool ok = qhashmurmur3_128(buf, n, got);
#ifndef VF_NOEQ
    ref_murmur3_128(vfin.b, n, want);
    VF_ASSERT(ok && got[0] == want[0] && got[1] == want[1], "C18.murmur128: qhashmurmur3_128 equals MurmurHash3_x64_128 seed 0");
#endif
#endif
    (void)got;
    free(base);
    VF_REACH("end");
}
#include "vf_main.h"
