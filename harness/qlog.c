/* Rotating file logger (src/extensions/qlog.c): C14 for the one lockable object that is not a container.
 *
 * Pre-state: a thread-safe qlog_t built directly (calloc + Q_MUTEX_NEW + method table) with every private
 * field symbolic: log file open or not, duplicate stream set or not, flush flags, rotation interval and
 * next-rotation instant, current path.  One public method (write / writef / duplicate / flush / free, or
 * the constructor) with symbolic arguments; the environment (time, strftime, fopen, fprintf, vsnprintf)
 * answers with solver-chosen values, so rotation, failed re-open, failed write and formatting retry are
 * all reachable.  Post (C14): the lock depth and the library's own recursion counter are what they were on
 * entry, on every path; free() releases the lock before destroying it.
 */
#include "vf.h"
#include "stubs.h"

#define OP_WRITE 1
#define OP_WRITEF 2
#define OP_DUPLICATE 3
#define OP_FLUSH 4
#define OP_FREE 5
#define OP_CTOR 6

struct vf_input {
    uint8_t has_fp, has_outfp, logflush, outflush, flusharg, dup_null, null_log;
    int rotateinterval, nextrotate;
    long now[4];
    long mk;
    uint8_t fopen_ok[2];
    int fprintf_ret[2];
    int vsn_ret[2];
    char path[3], newpath[3], msg[3], fmt[3];
    int options;
    unsigned mode;
    unsigned failmask;
    int8_t failfrom;
};
extern struct vf_input vfin;

/* ---- environment model ---- */
static char vf_files[4];
static int vf_file_open[4];
static unsigned vf_nfopen, vf_ntime, vf_nfprintf, vf_nvsn;
static struct tm vf_tm;

static FILE *vf_fopen(const char *path, const char *mode) {
    (void)path; (void)mode;
    unsigned k = vf_nfopen++;
    if (k >= 2 || !vfin.fopen_ok[k]) return NULL;
    vf_file_open[2 + k] = 1;
    return (FILE *)&vf_files[2 + k];
}
static int vf_fclose(FILE *f) {
    int i = (int)((char *)f - vf_files);
    VF_ASSERT(f != NULL && i >= 0 && i < 4 && vf_file_open[i], "C11.qlog.fclose: only an open stream is closed, once");
    vf_file_open[i] = 0;
    return 0;
}
static int vf_fflush(FILE *f) { (void)f; return 0; }
static int vf_fileno(FILE *f) { (void)f; return 3; }
static int vf_fchmod(int fd, mode_t m) { (void)fd; (void)m; return 0; }
static int vf_fprintf(FILE *f, const char *fmt, ...) {
    (void)fmt;
    int i = (int)((char *)f - vf_files);
    VF_ASSERT(f != NULL && i >= 0 && i < 4 && vf_file_open[i], "C11.qlog.fprintf: output goes to an open stream");
    unsigned k = vf_nfprintf++;
    return k < 2 ? vfin.fprintf_ret[k] : 0;
}
static time_t vf_time(time_t *t) {
    unsigned k = vf_ntime++;
    time_t v = (time_t)vfin.now[k < 4 ? k : 3];
    if (t) *t = v;
    return v;
}
static struct tm *vf_localtime(const time_t *t) { (void)t; return &vf_tm; }
static struct tm *vf_gmtime(const time_t *t) { (void)t; return &vf_tm; }
static time_t vf_mktime(struct tm *tm) { (void)tm; return (time_t)vfin.mk; }
static size_t vf_strftime(char *s, size_t max, const char *fmt, const struct tm *tm) {
    (void)fmt; (void)tm;
    VF_ASSERT(max >= 3, "C11.qlog.strftime: buffer large enough for the model's 2-byte path");
    s[0] = vfin.newpath[0]; s[1] = vfin.newpath[0] ? vfin.newpath[1] : 0; s[2] = 0;
    return strlen(s);
}
/* formatting is outside every claim: produce "m" and report a solver-chosen length (so the retry loop of
 * DYNAMIC_VSPRINTF is exercised for "did not fit"; negative results = libc encoding errors are excluded) */
static int vf_vsnprintf(char *s, size_t n, const char *fmt, va_list ap) {
    (void)fmt; (void)ap;
    if (n > 1) { s[0] = 'm'; s[1] = 0; } else if (n == 1) s[0] = 0;
    unsigned k = vf_nvsn++;
    return k < 2 ? vfin.vsn_ret[k] : 1;
}
#define fopen vf_fopen
#define fclose vf_fclose
#define fflush vf_fflush
#define fileno vf_fileno
#define fchmod vf_fchmod
#define fprintf vf_fprintf
#define time vf_time
#define localtime vf_localtime
#define gmtime vf_gmtime
#define mktime vf_mktime
#define strftime vf_strftime
#define vsnprintf vf_vsnprintf

#include "utilities/qstring.h"
/* qstrcpy is the only qstring.c function qlog.c uses; the real one is compiled in */
#include "utilities/qstring.c"
#include "extensions/qlog.c"

#ifdef VF_ALLOCFAIL
#define VF_AF 1
#else
#define VF_AF 0
#endif
#define CALL(stmt) do { vf_alloc_active = VF_AF; stmt; vf_alloc_active = 0; } while (0)

void vf_harness(void) {
#ifdef VF_FAILMASK
    vfin.failmask = VF_FAILMASK;
#endif
#ifdef VF_FAILFROM
    vfin.failfrom = VF_FAILFROM;
#else
    vfin.failfrom = -1;
#endif
    vf_failmask = vfin.failmask;
    vf_fail_from = vfin.failfrom;
    VF_ASSUME(vfin.vsn_ret[0] >= 0 && vfin.vsn_ret[1] >= 0 && vfin.vsn_ret[1] < 2048);
    vfin.path[2] = 0; vfin.newpath[2] = 0; vfin.msg[2] = 0; vfin.fmt[2] = 0;
    VF_ASSUME(vfin.newpath[0] != 0);

#if VF_OP == OP_CTOR
    {
        vfin.options |= QLOG_OPT_THREADSAFE;
        int d0 = vf_lock_depth;
        qlog_t *log;
        CALL(log = qlog(vfin.fmt, (mode_t)vfin.mode, vfin.rotateinterval, vfin.options));
        VF_ASSERT(vf_lock_depth == d0, "C14.qlog.ctor.balance: the constructor returns with the lock depth unchanged");
        if (log != NULL) {
            VF_ASSERT(log->qmutex != NULL && ((qmutex_t *)log->qmutex)->count == 0, "C14.qlog.ctor.count: a new logger's lock is free");
            VF_ASSERT(log->fp != NULL, "C14.qlog.ctor.open: a constructed logger has an open file");
            bool r = log->write(log, vfin.msg);
            (void)r;
            VF_ASSERT(vf_lock_depth == d0, "C14.qlog.ctor.then_write: write on a fresh logger returns with the lock released");
            log->free(log);
            VF_ASSERT(vf_lock_depth == d0, "C14.qlog.free.balance: free releases the lock before destroying it");
        } else {
            VF_COVER("ctor_failed");
        }
        VF_ASSERT(vf_live_blocks == 0, "C15.qlog.ctor.leak: nothing is leaked by a failed or freed logger");
        VF_REACH("end");
        return;
    }
#else
    qlog_t *log = (qlog_t *)calloc(1, sizeof(qlog_t));
    VF_ASSUME(log != NULL);
    Q_MUTEX_NEW(log->qmutex, true);
    VF_ASSUME(log->qmutex != NULL);
    log->write = write_; log->writef = writef; log->duplicate = duplicate; log->flush = flush_; log->free = free_;
    log->filepathfmt[0] = vfin.fmt[0]; log->filepathfmt[1] = vfin.fmt[0] ? vfin.fmt[1] : 0;
    log->filepath[0] = vfin.path[0]; log->filepath[1] = vfin.path[0] ? vfin.path[1] : 0;
    if (vfin.has_fp) { log->fp = (FILE *)&vf_files[0]; vf_file_open[0] = 1; }
    if (vfin.has_outfp) { log->outfp = (FILE *)&vf_files[1]; vf_file_open[1] = 1; }
    log->mode = (mode_t)vfin.mode;
    log->rotateinterval = vfin.rotateinterval;
    log->nextrotate = vfin.nextrotate;
    log->logflush = vfin.logflush & 1;
    log->outflush = vfin.outflush & 1;
    VF_ASSUME(vfin.rotateinterval >= 0 && vfin.rotateinterval <= 86400);
    VF_ASSUME(vfin.now[0] >= 0 && vfin.now[1] >= 0 && vfin.now[2] >= 0 && vfin.now[3] >= 0);
    VF_ASSUME(vfin.now[0] < 2000000000L && vfin.now[1] < 2000000000L && vfin.now[2] < 2000000000L && vfin.now[3] < 2000000000L);
    VF_ASSUME(vfin.mk >= 0 && vfin.mk < 2000000000L);

    qmutex_t *mx = (qmutex_t *)log->qmutex;
    int d0 = vf_lock_depth, c0 = mx->count;
    qlog_t *arg = vfin.null_log ? NULL : log;
    bool r;
#if VF_OP == OP_WRITE
    CALL(r = log->write(arg, vfin.msg));
    if (arg && !vfin.has_fp) VF_ASSERT(!r, "C14.qlog.write.closed: write on a logger without a file reports failure");
#elif VF_OP == OP_WRITEF
    CALL(r = log->writef(arg, vfin.fmt));
#elif VF_OP == OP_DUPLICATE
    CALL(r = log->duplicate(arg, vfin.dup_null ? NULL : (FILE *)&vf_files[1], vfin.flusharg & 1));
    if (arg) { vf_file_open[1] = !vfin.dup_null; }
#elif VF_OP == OP_FLUSH
    CALL(r = log->flush(arg));
#elif VF_OP == OP_FREE
    CALL(log->free(log));
    VF_ASSERT(vf_lock_depth == d0, "C14.qlog.free.balance: free releases the lock before destroying it");
    VF_ASSERT(vf_live_blocks == 0, "C11.qlog.free.leak: free releases the logger and its mutex");
    VF_REACH("end");
#endif
#if VF_OP != OP_FREE
    (void)r;
    VF_ASSERT(vf_lock_depth == d0, "C14.qlog.balance: every logger method returns with the lock depth it had on entry");
    VF_ASSERT(mx->count == c0, "C14.qlog.count: the library's own recursion counter is unchanged after the call");
    /* a probe call by 'another thread' must find the lock free: with the counting model this is depth==0 */
    VF_ASSERT(vf_lock_depth == 0, "C14.qlog.free_after: the lock is free after the call returns");
    log->free(log);
    VF_ASSERT(vf_lock_depth == 0, "C14.qlog.free.balance: free releases the lock before destroying it");
    VF_REACH("end");
#endif
#endif
}
#include "vf_main.h"
