/* Q_MUTEX_ENTER / Q_MUTEX_LEAVE / Q_MUTEX_NEW / Q_MUTEX_DESTROY (src/internal/qinternal.h) in isolation (C13-mx).
 *
 * Every container critical section is built from these macros, and the container harnesses model a trylock that
 * always succeeds.  Here the lock is CONTENDED: another logical thread T2 holds the (recursive) mutex at a solver-
 * chosen depth when T1 enters, and releases it after a solver-chosen number f of T1's failed attempts, f anywhere in
 * 0 .. 2*MAX_MUTEX_LOCK_WAIT+1, so that T1 goes through the bounded spin, the "force to unlock" path (an unlock by a
 * non-owner: EPERM, changes nothing - POSIX recursive/error-checking semantics) and the retry.
 * Post: T1 leaves Q_MUTEX_ENTER only as the owner of the mutex (never while T2 still holds it), the forced unlock
 * never releases T2's hold, ENTER terminates once the holder lets go, nested ENTER/LEAVE pairs of T1 return the mutex
 * to free, and the bookkeeping (owner, count) is exact in the uncontended case.
 */
#include "vf.h"
#include <stdio.h>
#include <pthread.h>
#include <unistd.h>

struct vf_input {
    uint8_t t2_depth;      /* how deep T2 holds the mutex when T1 arrives (0 = free) */
    uint16_t t2_release;   /* T2 lets go after this many failed trylock attempts of T1 */
    uint8_t nest;          /* T1 enters 1..3 times */
    uint8_t recursive;
};
extern struct vf_input vfin;

/* model of ONE pthread mutex */
static int mx_owner;       /* 0 free, 1 = T1, 2 = T2 */
static int mx_depth;
static unsigned mx_failed; /* failed attempts of T1 so far */
static int mx_initialised, mx_destroyed;
static unsigned mx_eperm;

static void t2_progress(void) {
    /* T2 leaves its critical section once T1 has failed often enough */
    if (mx_owner == 2 && mx_failed >= vfin.t2_release) { mx_owner = 0; mx_depth = 0; }
}
static int vf_trylock(pthread_mutex_t *m) {
    (void)m;
    VF_ASSERT(mx_initialised && !mx_destroyed, "C13.mx.use: only an initialised, live mutex is locked");
    t2_progress();
    if (mx_owner == 0 || mx_owner == 1) { mx_owner = 1; mx_depth++; return 0; }
    mx_failed++;
    return EBUSY;
}
static int vf_unlock(pthread_mutex_t *m) {
    (void)m;
    if (mx_owner != 1) { mx_eperm++; return EPERM; } /* unlock by a thread that does not own it: refused, nothing changes */
    if (--mx_depth == 0) mx_owner = 0;
    return 0;
}
static int vf_init(pthread_mutex_t *m, const pthread_mutexattr_t *a) {
    (void)a;
    VF_ASSERT(m != NULL, "C13.mx.init.null: pthread_mutex_init is not handed a NULL mutex");
    VF_ASSERT(mx_owner == 0, "C13.mx.reinit: a held mutex is never re-initialised");
    mx_initialised = 1;
    return 0;
}
static int vf_destroy(pthread_mutex_t *m) {
    (void)m;
    if (mx_owner != 0) return EBUSY;
    mx_destroyed = 1;
    return 0;
}
static int vf_attr(pthread_mutexattr_t *a) { (void)a; return 0; }
static int vf_settype(pthread_mutexattr_t *a, int t) { (void)a; (void)t; return 0; }
static pthread_t vf_self(void) { return (pthread_t)1; }
static int vf_usleep(unsigned us) { (void)us; return 0; }
#define pthread_mutex_trylock vf_trylock
#define pthread_mutex_unlock vf_unlock
#define pthread_mutex_init vf_init
#define pthread_mutex_destroy vf_destroy
#define pthread_mutexattr_init vf_attr
#define pthread_mutexattr_destroy vf_attr
#define pthread_mutexattr_settype vf_settype
#define pthread_self vf_self
#undef pthread_equal
#define pthread_equal(a, b) ((a) == (b))
#define usleep vf_usleep

#include "qinternal.h"

/* one expansion of each macro, so that its loops have stable ids (vf_enter.0 = bounded spin, vf_enter.2 = retry loop) */
static void vf_enter(void *qm) { Q_MUTEX_ENTER(qm); }
static void vf_leave(void *qm) { Q_MUTEX_LEAVE(qm); }

void vf_harness(void) {
    void *qm = NULL;
    Q_MUTEX_NEW(qm, (vfin.recursive & 1) != 0);
    VF_ASSUME(qm != NULL);
    qmutex_t *m = (qmutex_t *)qm;
    VF_ASSERT(m->count == 0 && mx_initialised, "C13.mx.new: a new lock is initialised and free");
    VF_ASSUME(vfin.nest >= 1 && vfin.nest <= 3);
    VF_ASSUME(vfin.t2_depth <= 2);
    VF_ASSUME(vfin.t2_release <= 2 * MAX_MUTEX_LOCK_WAIT + 1);
    if (vfin.t2_depth > 0) { mx_owner = 2; mx_depth = vfin.t2_depth; m->owner = (pthread_t)2; m->count = vfin.t2_depth; }

    vf_enter(qm);
    VF_ASSERT(mx_owner == 1 && mx_depth == 1, "C13.mx.exclusive: a thread leaves Q_MUTEX_ENTER only as the owner of the mutex - never while another thread still holds it");
    VF_ASSERT(vfin.t2_depth == 0 || mx_failed >= vfin.t2_release, "C13.mx.noforce: the forced unlock after the bounded spin never releases another thread's hold");
    VF_ASSERT(pthread_equal(m->owner, pthread_self()), "C13.mx.owner: the lock records the entering thread as owner");
    if (vfin.t2_depth == 0) VF_ASSERT(m->count == 1 && mx_failed == 0 && mx_eperm == 0, "C13.mx.count: uncontended enter counts one level and never touches unlock");
    if (vfin.t2_depth > 0 && vfin.t2_release > MAX_MUTEX_LOCK_WAIT) VF_COVER("forced-unlock-path");
    if (vfin.nest >= 2) { vf_enter(qm); VF_ASSERT(mx_owner == 1 && mx_depth == 2, "C13.mx.recursive: the owner re-enters (recursive lock)"); }
    if (vfin.nest >= 3) { vf_enter(qm); VF_ASSERT(mx_owner == 1 && mx_depth == 3, "C13.mx.recursive: the owner re-enters (recursive lock)"); }
    if (vfin.nest >= 3) vf_leave(qm);
    if (vfin.nest >= 2) vf_leave(qm);
    VF_ASSERT(mx_owner == 1 && mx_depth == 1, "C14.mx.nested: inner enter/leave pairs return the lock to the outer depth");
    vf_leave(qm);
    VF_ASSERT(mx_owner == 0 && mx_depth == 0, "C14.mx.balance: matching leaves release the mutex completely");
    if (vfin.t2_depth == 0) VF_ASSERT(m->count == 0, "C14.mx.count: the recursion counter is back to zero");
    Q_MUTEX_DESTROY(qm);
    VF_ASSERT(mx_destroyed, "C13.mx.destroy: a free mutex is destroyed");
    VF_REACH("end");
}
#include "vf_main.h"
