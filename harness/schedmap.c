/* C13 for the map-like containers (list table with UNIQUE, hash table, tree table): same interleaving-injection scheme
 * as sched.c.  Keys are the two strings "a"/"b" (solver-chosen per operation), values one-character strings.
 * VF_CONT 3: qlisttbl (QLISTTBL_UNIQUE | THREADSAFE), 4: qhashtbl (range 2), 5: qtreetbl.
 * T1/T2 operation kinds are per-query constants; keys/values and the scheduling point are symbolic. */
#include "vf.h"
#include "stubs.h"
static uint32_t vf_hash(const void *d, size_t n) { uint32_t h = 0; for (size_t i = 0; i < 4; i++) if (i < n) h = h * 31 + ((const uint8_t *)d)[i]; return h; }
#define qhashmurmur3_32 vf_hash
#include "utilities/qhash.h"
#if VF_CONT == 3
#include "utilities/qstring.c"
#include "containers/qlisttbl.c"
typedef qlisttbl_t cont_t;
#define SEQP "C08."
#elif VF_CONT == 4
#include "containers/qhashtbl.c"
typedef qhashtbl_t cont_t;
#define SEQP "C05."
#else
#include "utilities/qstring.c"
#include "containers/qtreetbl.c"
typedef qtreetbl_t cont_t;
#define SEQP "C01."
#endif

#define OP_PUT 1
#define OP_GET 2
#define OP_REMOVE 3
#define OP_SIZE 4
#define OP_CLEAR 5
#ifndef VF_N0
#define VF_N0 1
#endif

#ifdef VF_SEQ3
#define NK 4   /* history queries: keys a, c, e share a hash-table slot (stub hash, range 2), b lives in the other one */
#else
#define NK 2
#endif
#define KMASK (NK - 1)
struct vf_input { uint8_t initv[NK]; uint8_t k1, k2, k3, v1, v2, v3; uint8_t sched; };
extern struct vf_input vfin;

struct mp { uint8_t has[NK]; uint8_t val[NK]; };
struct res { int ok; int has; uint8_t val; int n; };
#ifdef VF_SEQ3
static const char *KEY[NK] = {"a", "c", "e", "b"};
#else
static const char *KEY[NK] = {"a", "b"};
#endif
static int mp_count(const struct mp *m) { int n = 0; for (int k = 0; k < NK; k++) n += m->has[k] ? 1 : 0; return n; }

static void ideal(struct mp *m, int op, int k, uint8_t v, struct res *r) {
    r->ok = 0; r->has = 0; r->val = 0; r->n = -1;
    switch (op) {
    case OP_PUT: m->has[k] = 1; m->val[k] = v; r->ok = 1; break;
    case OP_GET: if (m->has[k]) { r->ok = 1; r->has = 1; r->val = m->val[k]; } break;
    case OP_REMOVE: if (m->has[k]) { m->has[k] = 0; r->ok = 1; } break;
    case OP_SIZE: r->ok = 1; r->n = mp_count(m); break;
    case OP_CLEAR: for (int k = 0; k < NK; k++) m->has[k] = 0; r->ok = 1; break;
    }
}
static void real(cont_t *c, int op, int k, uint8_t v, struct res *r) {
    r->ok = 0; r->has = 0; r->val = 0; r->n = -1;
    char vs[2] = {(char)v, 0};
    switch (op) {
    case OP_PUT: r->ok = c->putstr(c, KEY[k], vs); break;
    case OP_GET: { char *p = c->getstr(c, KEY[k], true); if (p) { r->ok = 1; r->has = 1; r->val = (uint8_t)p[0]; free(p); } } break;
#if VF_CONT == 3
    case OP_REMOVE: r->ok = c->remove(c, KEY[k]) > 0; break;
#else
    case OP_REMOVE: r->ok = c->remove(c, KEY[k]); break;
#endif
    case OP_SIZE: r->ok = 1; r->n = (int)c->size(c); break;
    case OP_CLEAR: c->clear(c); r->ok = 1; break;
    }
}
static bool res_eq(const struct res *a, const struct res *b) { return a->ok == b->ok && a->has == b->has && a->n == b->n && (!a->has || a->val == b->val); }
static bool contents_eq(cont_t *c, const struct mp *m) {
    if ((int)c->size(c) != mp_count(m)) return false;
    for (int k = 0; k < NK; k++) {
        char *p = c->getstr(c, KEY[k], false);
        if ((p != NULL) != (m->has[k] != 0)) return false;
        if (p && (uint8_t)p[0] != m->val[k]) return false;
    }
    return true;
}
static cont_t *g_c; static struct res g_r2; static int g_t2_done; static unsigned g_points;
static void run_t2(void) { g_t2_done = 1; real(g_c, VF_OP2, vfin.k2 & KMASK, vfin.v2, &g_r2); }
/* ---- lock-discipline monitor ("no data race on container state"): while T1 is OUTSIDE its critical sections the
 * structural pointers of the container are hidden (the container looks empty); they are restored at every outermost lock
 * acquisition and hidden again after every outermost release.  Code that touches the structure only under the lock never
 * notices; an access outside the lock (a read that another thread's restructuring could race with) sees an empty
 * container and shows up as a result no sequential order explains.  Counters (num) are not hidden: size() may read them. */
#if VF_CONT == 3
static qlisttbl_obj_t *sv_first, *sv_last;
static void hide(cont_t *c) { sv_first = c->first; sv_last = c->last; c->first = NULL; c->last = NULL; }
static void show(cont_t *c) { c->first = sv_first; c->last = sv_last; }
#elif VF_CONT == 4
static qhashtbl_obj_t **sv_slots;
static qhashtbl_obj_t *vf_no_slots[2];
static void hide(cont_t *c) { sv_slots = c->slots; c->slots = vf_no_slots; }
static void show(cont_t *c) { c->slots = sv_slots; }
#else
static qtreetbl_obj_t *sv_root;
static void hide(cont_t *c) { sv_root = c->root; c->root = NULL; }
static void show(cont_t *c) { c->root = sv_root; }
#endif
static void hook(int what) {
    g_points++;
    if (what == VF_SCHED_ACQUIRE) show(g_c);
    if (!g_t2_done && g_points == vfin.sched) run_t2();
    if (what == VF_SCHED_RELEASE) hide(g_c);
}

void vf_harness(void) {
#if VF_CONT == 3
    cont_t *c = qlisttbl(QLISTTBL_THREADSAFE | QLISTTBL_UNIQUE);
#elif VF_CONT == 4
    cont_t *c = qhashtbl(2, QHASHTBL_THREADSAFE);
#else
    cont_t *c = qtreetbl(QTREETBL_THREADSAFE);
#endif
    VF_ASSUME(c != NULL);
    VF_ASSUME(vfin.v1 != 0 && vfin.v2 != 0 && vfin.v3 != 0);
    for (int k = 0; k < NK; k++) VF_ASSUME(vfin.initv[k] != 0);
    struct mp m0;
    for (int k = 0; k < NK; k++) { m0.has[k] = 0; m0.val[k] = 0; }
    for (int i = 0; i < VF_N0; i++) { char vs[2] = {(char)vfin.initv[i], 0}; VF_ASSUME(c->putstr(c, KEY[i], vs)); m0.has[i] = 1; m0.val[i] = vfin.initv[i]; }
    g_c = c;
    struct res r1;
#ifdef VF_SEQ3
    /* HISTORY query (see sched.c): three calls in a row through the public API, kinds constant, keys/values symbolic */
    {
        struct mp m = m0;
        struct res i1, i2, i3, r2, r3;
        real(c, VF_OP1, vfin.k1 & KMASK, vfin.v1, &r1); ideal(&m, VF_OP1, vfin.k1 & KMASK, vfin.v1, &i1);
        VF_ASSERT(res_eq(&r1, &i1), SEQP "seq.step1: first call of a three-call history returns what the ideal map returns");
        real(c, VF_OP2, vfin.k2 & KMASK, vfin.v2, &r2); ideal(&m, VF_OP2, vfin.k2 & KMASK, vfin.v2, &i2);
        VF_ASSERT(res_eq(&r2, &i2), SEQP "seq.step2: second call of a three-call history returns what the ideal map returns");
        real(c, VF_OP3, vfin.k3 & KMASK, vfin.v3, &r3); ideal(&m, VF_OP3, vfin.k3 & KMASK, vfin.v3, &i3);
        VF_ASSERT(res_eq(&r3, &i3), SEQP "seq.step3: third call of a three-call history returns what the ideal map returns");
        VF_ASSERT(contents_eq(c, &m), SEQP "seq.contents: after three calls the container holds exactly the ideal map");
        VF_ASSERT(vf_lock_depth == 0, "C14.seq.lock: every call returns with the lock released");
        c->free(c);
        VF_REACH("end");
    }
#else
#ifdef VF_SCHED
    /* tree table: the scheduling point is a per-query constant (the driver enumerates 0 = before, 1..4 = k-th outermost
     * acquire/release, 99 = after), so that only ONE symbolic restructuring by T2 is encoded per query */
    vfin.sched = VF_SCHED;
#endif
    if (vfin.sched == 0) run_t2();
    vf_sched_hook = hook;
    hide(c);
    real(c, VF_OP1, vfin.k1 & KMASK, vfin.v1, &r1);
    show(c);
    vf_sched_hook = NULL;
    if (!g_t2_done) run_t2(); else if (vfin.sched != 0) VF_COVER("t2-inside");
    VF_ASSERT(vf_lock_depth == 0, "C14.sched.lock: both calls return with the lock released");
    struct mp a = m0, b = m0; struct res a1, a2, b1, b2;
    ideal(&a, VF_OP1, vfin.k1 & KMASK, vfin.v1, &a1); ideal(&a, VF_OP2, vfin.k2 & KMASK, vfin.v2, &a2);
    ideal(&b, VF_OP2, vfin.k2 & KMASK, vfin.v2, &b2); ideal(&b, VF_OP1, vfin.k1 & KMASK, vfin.v1, &b1);
    bool lin_a = res_eq(&r1, &a1) && res_eq(&g_r2, &a2) && contents_eq(c, &a);
    bool lin_b = res_eq(&r1, &b1) && res_eq(&g_r2, &b2) && contents_eq(c, &b);
    VF_ASSERT(lin_a || lin_b, "C13.linearizable: results and final contents equal those of one of the two sequential orders (no update lost, duplicated or half-applied; no access to the container structure outside its lock)");
    c->free(c);
    VF_REACH("end");
#endif
}
#include "vf_main.h"
