/* vf.h - common definitions for all verification harnesses.
 *
 * A harness is one C file that #includes the real qlibc translation unit(s)
 * it reasons about, declares `struct vf_input` (every symbolic input of the
 * query) and defines `void vf_harness(void)`.
 *
 * Two build modes:
 *   - CBMC  (goto-cc, __CPROVER__ defined): vfin is nondeterministic,
 *     VF_ASSUME/VF_ASSERT map to __CPROVER_assume/__CPROVER_assert.
 *   - REPLAY (gcc -DVF_REPLAY + ASan/UBSan): vfin is filled by the generated
 *     function vf_replay_fill() from the solver's counterexample; VF_ASSERT
 *     prints the failing tag and exits 1, a false VF_ASSUME exits 77.
 *
 * Assertion tags: "Cxx.<what>: text" names the property that owns the
 * assertion. "vf_reach:<name>" marks a reachability witness that MUST be
 * reported FAILURE by the solver (otherwise the query is vacuous).
 */
#ifndef VF_H
#define VF_H

#include <stddef.h>
#include <stdint.h>
#include <stdbool.h>
#include <stdlib.h>
#include <string.h>
#include <errno.h>

#ifdef VF_CBMC
#define VF_ASSUME(c) __CPROVER_assume(c)
#define VF_ASSERT(c, tag) __CPROVER_assert((c), tag)
#define VF_REACH(name) __CPROVER_assert(0, "vf_reach:" name)
#define VF_COVER(name) __CPROVER_assert(0, "vf_cover:" name)
#define VF_SAME_OBJECT(a, b) __CPROVER_same_object((a), (b))
#define VF_HAVOC_OBJ(p) __CPROVER_havoc_object(p)
#else
#include <stdio.h>
#define VF_ASSUME(c)                                                          \
    do {                                                                      \
        if (!(c)) {                                                           \
            fprintf(stderr, "VF_ASSUME_FALSE %s:%d %s\n", __FILE__, __LINE__, \
                    #c);                                                      \
            exit(77);                                                         \
        }                                                                     \
    } while (0)
#define VF_ASSERT(c, tag)                                                     \
    do {                                                                      \
        if (!(c)) {                                                           \
            fprintf(stderr, "VF_ASSERT_FAILED [%s] %s:%d\n", tag, __FILE__,   \
                    __LINE__);                                                \
            exit(1);                                                          \
        }                                                                     \
    } while (0)
#define VF_REACH(name) fprintf(stderr, "VF_REACHED %s\n", name)
#define VF_COVER(name) fprintf(stderr, "VF_COVERED %s\n", name)
/* natively we cannot ask for object identity; approximated by the caller */
#define VF_SAME_OBJECT(a, b) ((const void *)(a) == (const void *)(b))
#define VF_HAVOC_OBJ(p) ((void)0)
#endif

#endif /* VF_H */
