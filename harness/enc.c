/* C16 / C17: URL, Base64, hex encoders and in-place decoders (src/utilities/qencode.c,
 * src/internal/qinternal.c).  One codec (VF_CODEC) and one length VF_N per query;
 * all VF_N bytes symbolic.
 *   VF_MODE 0: encode -> format conformance -> decode -> round trip   (C16)
 *   VF_MODE 1: decoder leniency: case-flipped hex digits, '+', vs reference decoder
 *              on well-formed input                                     (C16)
 *   VF_MODE 2: decoder on ARBITRARY NUL-terminated input in an exactly sized
 *              heap buffer (run with the safety checks)                 (C17)
 */
#include "vf.h"
#include <stdio.h>
#include "utilities/qencode.c"
#include "internal/qinternal.c"
#include "encref.h"

#define URL 1
#define B64 2
#define HEX 3
#ifndef VF_N
#define VF_N 3
#endif
#ifndef VF_MODE
#define VF_MODE 0
#endif
#define NN (VF_N > 0 ? VF_N : 1)

struct vf_input {
    unsigned char b[NN];
    unsigned char flip[3 * NN]; /* per output character: flip the case of a hex letter? */
    unsigned probe;
};
extern struct vf_input vfin;

void vf_harness(void) {
    const size_t n = VF_N;
#if VF_MODE == 0
    /* caller data in an exactly sized heap object */
    unsigned char *src = malloc(NN);
    VF_ASSUME(src != NULL);
    for (size_t i = 0; i < n; i++) src[i] = vfin.b[i];
#if VF_CODEC == URL
    char *e = qurl_encode(src, n);
    VF_ASSERT(e != NULL, "C16.url.nonnull: encoder returns a string");
    /* format: walk output against input */
    size_t p = 0;
    for (size_t i = 0; i < n; i++) {
        unsigned char c = src[i];
        if (e[p] == '%') {
            int h = ref_hexval((unsigned char)e[p + 1]), l = ref_hexval((unsigned char)e[p + 2]);
            VF_ASSERT(h >= 0 && l >= 0 && (unsigned)(h * 16 + l) == c, "C16.url.pct: %hh escape carries the byte value");
            p += 3;
        } else {
            VF_ASSERT((unsigned char)e[p] == c && ref_url_literal_ok(c), "C16.url.literal: only URL-safe ASCII is emitted literally");
            p += 1;
        }
    }
    VF_ASSERT(e[p] == 0, "C16.url.term: output ends after the last input byte");
    size_t elen = p;
    size_t dl = qurl_decode(e);
#elif VF_CODEC == B64
    char *e = qbase64_encode(src, n);
    VF_ASSERT(e != NULL, "C16.b64.nonnull: encoder returns a string");
    char refo[4 * ((NN + 2) / 3) + 1];
    size_t rl = ref_b64_encode(src, n, refo);
    VF_ASSERT(rl == 4 * ((n + 2) / 3), "C16.b64.reflen: reference length");
    for (size_t i = 0; i <= rl; i++)
        VF_ASSERT(e[i] == refo[i], "C16.b64.rfc4648: output equals RFC 4648 encoding incl. padding and terminator");
    size_t elen = rl;
    size_t dl = qbase64_decode(e);
#else
    char *e = qhex_encode(src, n);
    VF_ASSERT(e != NULL, "C16.hex.nonnull: encoder returns a string");
    for (size_t i = 0; i < n; i++) {
        VF_ASSERT(e[2 * i] == ref_lowhex(src[i] >> 4) && e[2 * i + 1] == ref_lowhex(src[i] & 15),
                  "C16.hex.format: two lowercase hex digits per byte");
    }
    VF_ASSERT(e[2 * n] == 0, "C16.hex.term: output length is 2n");
    size_t elen = 2 * n;
    size_t dl = qhex_decode(e);
#endif
    (void)elen;
    VF_ASSERT(dl == n, "C16.rt.len: decode(encode(x)) has the length of x");
    for (size_t i = 0; i < n; i++)
        VF_ASSERT((unsigned char)e[i] == src[i], "C16.rt.bytes: decode(encode(x)) == x");
    VF_ASSERT(e[n] == 0, "C16.rt.term: decoded string is terminated");
    free(e);
    free(src);
    VF_REACH("end");

#elif VF_MODE == 1
    /* leniency: encode, then flip hex-letter case by a symbolic mask, decode, compare */
    unsigned char src[NN];
    for (size_t i = 0; i < n; i++) src[i] = vfin.b[i];
#if VF_CODEC == URL
    /* hand-built well-formed URL data: each byte is rendered as literal, '+' (if
     * it is a space) or %HH with solver-chosen digit case */
    char *e = malloc(3 * NN + 1);
    VF_ASSUME(e != NULL);
    size_t p = 0;
    for (size_t i = 0; i < n; i++) {
        unsigned char c = src[i];
        unsigned char style = vfin.flip[3 * i] % 3;
        if (style == 0 && c != 0 && c != '%' && c != '+') {
            e[p++] = (char)c;
        } else if (style == 1 && c == ' ') {
            e[p++] = '+';
        } else {
            char h = ref_lowhex(c >> 4), l = ref_lowhex(c & 15);
            if ((vfin.flip[3 * i + 1] & 1) && h >= 'a') h = (char)(h - 32);
            if ((vfin.flip[3 * i + 2] & 1) && l >= 'a') l = (char)(l - 32);
            e[p++] = '%'; e[p++] = h; e[p++] = l;
        }
    }
    e[p] = 0;
    size_t dl = qurl_decode(e);
#else
    char *e = qhex_encode(src, n);
    VF_ASSUME(e != NULL);
    for (size_t i = 0; i < 2 * n; i++)
        if ((vfin.flip[i] & 1) && e[i] >= 'a' && e[i] <= 'f') e[i] = (char)(e[i] - 32);
    size_t dl = qhex_decode(e);
#endif
    VF_ASSERT(dl == n, "C16.lenient.len: decoders accept both hex-digit cases and '+'");
    for (size_t i = 0; i < n; i++)
        VF_ASSERT((unsigned char)e[i] == src[i], "C16.lenient.bytes: decoders accept both hex-digit cases and '+'");
    VF_ASSERT(e[n] == 0, "C16.lenient.term: decoded string is terminated");
    free(e);
    VF_REACH("end");

#else /* VF_MODE == 2 : arbitrary input, exactly sized buffer */
    char *s = malloc(n + 1);
    VF_ASSUME(s != NULL);
    for (size_t i = 0; i < n; i++) {
        VF_ASSUME(vfin.b[i] != 0); /* the string has length exactly n: the buffer is exactly strlen+1 bytes */
        s[i] = (char)vfin.b[i];
    }
    s[n] = 0;
    size_t inlen = n;
#if VF_CODEC == URL
    size_t dl = qurl_decode(s);
#elif VF_CODEC == B64
    size_t dl = qbase64_decode(s);
#else
    size_t dl = qhex_decode(s);
#endif
    VF_ASSERT(dl <= inlen, "C17.dec.len: in-place decoder never produces more bytes than the input had");
    VF_ASSERT(s[dl] == 0, "C17.dec.term: result is terminated at the returned length");
    free(s);
    VF_REACH("end");
#endif
}
#include "vf_main.h"
