/* Doubly linked list (src/containers/qlist.c): one API step from an arbitrary well-formed list.
 *
 * Pre-state: VF_N nodes (constant per query) linked by hand behind the real constructor, element sizes per node either
 * constant (VF_SIZES) or a symbolic choice among the concrete allocations 1..VF_MAXSZ, all element bytes symbolic (so
 * embedded / trailing NUL arise), max (setsize limit) any size_t, datasum = sum of sizes.  Every such state is reachable:
 * VF_N x addlast() after the constructor, then setsize(max) (setsize never looks at num).
 * Operation VF_OP with symbolic index (whole int range), element bytes, flags.
 * Post: ideal-sequence equations + well-formedness (C09), copies independent (C12), lock balanced after every public
 * function (C14, with -DVF_TS), allocation failure atomic (C15, with -DVF_ALLOCFAIL); run with the safety flags + leak
 * check for C11.  Model, builder and checker: ref/listref.h.
 */
#include "vf.h"
#include "stubs.h"
#define VF_CN "list"
#include "listmem.h" /* byte-exact memcpy model (see there) */
#include "containers/qlist.c"
#include "listref.h"

#define OP_ADD 1
#define OP_GET 2
#define OP_POP 3
#define OP_REMOVE 4
#define OP_REVERSE 5
#define OP_CLEAR 6
#define OP_SETSIZE 7
#define OP_TOARRAY 8
#define OP_TOSTRING 9
#define OP_WALK 10
#define OP_SIZE 11
#define OP_CTOR 12
#define OP_ADDINV 13 /* NULL data / zero size */
#define OP_LOCK 14   /* lock()/unlock() pair, nested */

struct vf_input {
    VF_LIST_INPUT_FIELDS
    int index;
    uint8_t variant; /* 0: *at, 1: *first, 2: *last */
    uint8_t newmem, wantsize, inval;
    uint8_t val[VF_ESZ], val2[VF_ESZ];
    uint64_t newmax;
    unsigned failmask;
    int8_t failfrom;
};
extern struct vf_input vfin;

#ifdef VF_ALLOCFAIL
#define VF_AF 1
#define FP "C15.list." /* under an allocation-failure schedule the atomicity/validity claims belong to C15 */
#define LEAK "C15.list.leak: nothing is leaked under allocation failure: "
#else
#define VF_AF 0
#define FP "C09."
#define LEAK "C11.list.leak: "
#endif
/* the allocation-failure schedule is active exactly during the API call under test; every public function must return
 * with the lock at the depth it had on entry */
#define CALL(stmt) do { int vf_d_ = vf_lock_depth; vf_alloc_active = VF_AF; stmt; vf_alloc_active = 0; \
        VF_ASSERT(vf_lock_depth == vf_d_, "C14.list.lock: the operation returns with the container lock at the depth it had on entry"); } while (0)
#define CHECK_WF(l) VF_ASSERT(vf_wf(l), FP "wf: first/last/prev/next links consistent, num = node count, datasum = sum of sizes")

void vf_harness(void) {
    int opts = 0;
#ifdef VF_TS
    opts |= QLIST_THREADSAFE;
#endif
#ifdef VF_FAILMASK
    vfin.failmask = VF_FAILMASK; /* allocation-failure position: constant per query (driver enumerates positions) */
#endif
#ifdef VF_FAILFROM
    vfin.failfrom = VF_FAILFROM;
#else
    vfin.failfrom = -1;
#endif
#ifdef VF_VARIANT
    vfin.variant = VF_VARIANT;
#endif
    VF_ASSUME(vfin.variant <= 2);
    const int variant = vfin.variant;

#if VF_OP == OP_CTOR
    /* base case: the constructor establishes the invariant (and is failure-atomic) */
    vf_failmask = vfin.failmask; vf_fail_from = vfin.failfrom;
    qlist_t *l;
    errno = 0;
    CALL(l = qlist(opts));
    if (l == NULL) {
        VF_ASSERT(vf_alloc_failed, FP "ctor.ok: constructor succeeds when memory is available");
        VF_ASSERT(errno == ENOMEM, FP "ctor.errno: a failed constructor reports ENOMEM");
        VF_ASSERT(vf_live_blocks == 0, "C15.list.ctor.leak: a failed constructor releases everything it allocated");
        VF_COVER("ctor-failed");
    } else {
        gn = 0; gmax = 0;
        VF_ASSERT(l->first == NULL && l->last == NULL && l->num == 0 && l->datasum == 0 && l->max == 0, FP "ctor.state: new list is empty, unlimited, with no nodes");
        CHECK_WF(l);
        VF_ASSERT(vf_matches(l) && l->size(l) == 0 && l->datasize(l) == 0, FP "ctor.empty: size() and datasize() of a new list are 0");
#ifdef VF_TS
        VF_ASSERT(l->qmutex != NULL, FP "ctor.mutex: a thread-safe list has its lock");
#else
        VF_ASSERT(l->qmutex == NULL, FP "ctor.mutex: a plain list has no lock");
#endif
        uint8_t *b = vf_caller_buf(vfin.val, VF_ESZ);
        bool ok;
        CALL(ok = l->addlast(l, b, VF_ESZ));
        vf_scribble_free(l, b, VF_ESZ);
        if (ok) g_insert(0, vfin.val, VF_ESZ);
        CHECK_WF(l);
        VF_ASSERT((ok || vf_alloc_failed) && vf_matches(l), FP "ctor.usable: first append on a new list works");
        CALL(l->free(l));
        VF_ASSERT(vf_live_blocks == 0, LEAK "after free() every block the container allocated has been released");
    }
    VF_REACH("end");
    return;
#else
    /* ---------- pre-state ---------- */
    const long live_base = vf_live_blocks;
    qlist_t *l = qlist(opts);
    VF_ASSUME(l != NULL);
    vf_build(l, vfin.sz, vfin.data, vfin.max);
    VF_ASSERT(vf_wf(l) && vf_matches(l), FP "pre: the constructed pre-state is well-formed and equals the ideal sequence");
    const size_t n0 = gn;
    void *ret_copy = NULL; /* independent copy handed out by the API (kept until after free()) */
    size_t ret_size = 0;
    void *walk_copy[NCAP];
    size_t walk_n = 0;
    const int depth0 = vf_lock_depth;
    vf_failmask = vfin.failmask; vf_fail_from = vfin.failfrom;
    errno = 0;

#if VF_OP == OP_ADD
    {
        uint8_t *b = vf_caller_buf(vfin.val, VF_ESZ);
        bool ok;
        CALL(ok = variant == 1 ? l->addfirst(l, b, VF_ESZ) : variant == 2 ? l->addlast(l, b, VF_ESZ) : l->addat(l, vfin.index, b, VF_ESZ));
        const int e = errno;
        vf_scribble_free(l, b, VF_ESZ);
        const long pos = variant == 1 ? 0 : variant == 2 ? (long)n0 : g_pos_insert(vfin.index, n0);
        const bool valid = pos >= 0 && pos <= (long)n0;
        const bool full = gmax > 0 && n0 >= gmax;
        if (ok) {
            VF_ASSERT(valid, FP "add.range: insertion at an out-of-range index is refused");
            VF_ASSERT(!full, FP "add.max: insertion into a list that reached its configured maximum is refused");
            if (valid) g_insert((size_t)pos, vfin.val, VF_ESZ);
            VF_COVER("add-ok");
        } else {
            VF_ASSERT(!valid || full || vf_alloc_failed, FP "add.accept: insertion at a valid index below the maximum succeeds");
            if (vf_alloc_failed) VF_ASSERT(e == ENOMEM, FP "add.errno.nomem: allocation failure is reported as ENOMEM");
            else if (full) VF_ASSERT(e == ENOBUFS, FP "add.errno.full: a full list reports ENOBUFS");
            else VF_ASSERT(e == ERANGE, FP "add.errno.range: an out-of-range index reports ERANGE");
            VF_COVER("add-refused");
        }
        CHECK_WF(l);
        if (ok) VF_ASSERT(vf_matches(l), FP "add.effect: insert places the element at exactly that position, order of the rest kept, num+1, datasum+size");
        else VF_ASSERT(vf_matches(l), FP "add.refused: a refused insert leaves the list unchanged");
    }
#elif VF_OP == OP_ADDINV
    {
        uint8_t *b = vf_caller_buf(vfin.val, VF_ESZ);
        bool ok;
        if (vfin.inval & 1)
            CALL(ok = variant == 1 ? l->addfirst(l, NULL, VF_ESZ) : variant == 2 ? l->addlast(l, NULL, VF_ESZ) : l->addat(l, vfin.index, NULL, VF_ESZ));
        else
            CALL(ok = variant == 1 ? l->addfirst(l, b, 0) : variant == 2 ? l->addlast(l, b, 0) : l->addat(l, vfin.index, b, 0));
        VF_ASSERT(!ok && errno == EINVAL, FP "addinv.refused: NULL data or zero size is refused with EINVAL");
        free(b);
        CHECK_WF(l);
        VF_ASSERT(vf_matches(l), FP "addinv.unchanged: a refused insert leaves the list unchanged");
    }
#elif VF_OP == OP_GET
    {
        const bool nm = vfin.newmem & 1;
        size_t sz = 12345;
        size_t *szp = (vfin.wantsize & 1) ? &sz : NULL;
        void *p;
        CALL(p = variant == 1 ? l->getfirst(l, szp, nm) : variant == 2 ? l->getlast(l, szp, nm) : l->getat(l, vfin.index, szp, nm));
        const int e = errno;
        const long pos = variant == 1 ? 0 : variant == 2 ? (long)n0 - 1 : g_pos_access(vfin.index, n0);
        const bool valid = pos >= 0 && pos < (long)n0;
        if (p != NULL) {
            VF_ASSERT(valid, FP "get.range: get at an out-of-range index is refused");
            if (valid) {
                VF_ASSERT(szp == NULL || sz == gs[pos], FP "get.size: get reports the exact element size");
                VF_ASSERT(g_elem_eq(p, (size_t)pos), FP "get.value: get returns the element at exactly that position");
                if (nm) {
                    VF_ASSERT(!vf_is_internal(l, p), "C12.list.get.copy: get with the copy flag returns an independent allocation");
                    ret_copy = p; ret_size = gs[pos];
                } else {
                    VF_ASSERT(p == vf_ndata[pos < VF_N ? pos : 0], FP "get.nocopy: get without the copy flag returns the stored block itself (no allocation)");
                }
            }
            VF_COVER("get-ok");
        } else {
            VF_ASSERT(!valid || vf_alloc_failed, FP "get.accept: get at a valid index succeeds");
            if (vf_alloc_failed) VF_ASSERT(e == ENOMEM, FP "get.errno.nomem: allocation failure is reported as ENOMEM");
            else VF_ASSERT(e == ERANGE || e == ENOENT, FP "get.errno.range: an out-of-range index / empty list reports ERANGE or ENOENT");
            VF_COVER("get-refused");
        }
        CHECK_WF(l);
        VF_ASSERT(vf_matches(l), FP "get.pure: get does not modify the list");
    }
#elif VF_OP == OP_POP
    {
        size_t sz = 12345;
        size_t *szp = (vfin.wantsize & 1) ? &sz : NULL;
        void *p;
        CALL(p = variant == 1 ? l->popfirst(l, szp) : variant == 2 ? l->poplast(l, szp) : l->popat(l, vfin.index, szp));
        const int e = errno;
        const long pos = variant == 1 ? 0 : variant == 2 ? (long)n0 - 1 : g_pos_access(vfin.index, n0);
        const bool valid = pos >= 0 && pos < (long)n0;
        if (p != NULL) {
            VF_ASSERT(valid, FP "pop.range: pop at an out-of-range index is refused");
            if (valid) {
                VF_ASSERT(szp == NULL || sz == gs[pos], FP "pop.size: pop reports the exact element size");
                VF_ASSERT(g_elem_eq(p, (size_t)pos), FP "pop.value: pop returns the element at exactly that position");
                VF_ASSERT(!vf_is_internal(l, p), "C12.list.pop.copy: pop returns an independent allocation");
                ret_copy = p; ret_size = gs[pos];
                g_remove((size_t)pos);
            }
            VF_COVER("pop-ok");
        } else {
            VF_ASSERT(!valid || vf_alloc_failed, FP "pop.accept: pop at a valid index succeeds");
            if (vf_alloc_failed) VF_ASSERT(e == ENOMEM, FP "pop.errno.nomem: allocation failure is reported as ENOMEM");
            else VF_ASSERT(e == ERANGE || e == ENOENT, FP "pop.errno.range: an out-of-range index / empty list reports ERANGE or ENOENT");
            VF_COVER("pop-refused");
        }
        CHECK_WF(l);
        VF_ASSERT(vf_matches(l), FP "pop.effect: pop removes exactly that element, order of the rest kept, num-1, datasum-size (refused pop changes nothing)");
    }
#elif VF_OP == OP_REMOVE
    {
        bool ok;
        CALL(ok = variant == 1 ? l->removefirst(l) : variant == 2 ? l->removelast(l) : l->removeat(l, vfin.index));
        const int e = errno;
        const long pos = variant == 1 ? 0 : variant == 2 ? (long)n0 - 1 : g_pos_access(vfin.index, n0);
        const bool valid = pos >= 0 && pos < (long)n0;
        VF_ASSERT(ok == valid, FP "remove.accept: remove succeeds exactly for valid indexes");
        if (ok && valid) g_remove((size_t)pos);
        if (!ok) VF_ASSERT(e == ERANGE || e == ENOENT, FP "remove.errno.range: an out-of-range index / empty list reports ERANGE or ENOENT");
        CHECK_WF(l);
        VF_ASSERT(vf_matches(l), FP "remove.effect: remove deletes exactly that element, order of the rest kept, num-1, datasum-size (refused remove changes nothing)");
    }
#elif VF_OP == OP_REVERSE
    {
        CALL(l->reverse(l));
        g_reverse();
        CHECK_WF(l);
        VF_ASSERT(vf_matches(l), FP "reverse: reversal yields the exact reverse order, counters unchanged");
    }
#elif VF_OP == OP_CLEAR
    {
        CALL(l->clear(l));
        gn = 0;
        CHECK_WF(l);
        VF_ASSERT(vf_matches(l) && l->first == NULL && l->last == NULL, FP "clear: clear empties the list (num 0, datasum 0, no nodes), limit kept");
        uint8_t *b = vf_caller_buf(vfin.val, VF_ESZ);
        bool ok2;
        CALL(ok2 = l->addlast(l, b, VF_ESZ));
        vf_scribble_free(l, b, VF_ESZ);
        if (ok2) g_insert(0, vfin.val, VF_ESZ);
        CHECK_WF(l);
        VF_ASSERT((ok2 || vf_alloc_failed) && vf_matches(l), FP "clear.usable: list usable after clear");
    }
#elif VF_OP == OP_SETSIZE
    {
        size_t old;
        CALL(old = l->setsize(l, (size_t)vfin.newmax));
        VF_ASSERT(old == gmax, FP "setsize.ret: setsize returns the previous limit");
        gmax = (size_t)vfin.newmax;
        CHECK_WF(l);
        VF_ASSERT(vf_matches(l), FP "setsize.keep: setsize changes the limit only, never the elements");
        /* the new limit governs the next insertion */
        uint8_t *b = vf_caller_buf(vfin.val, VF_ESZ);
        bool ok2;
        CALL(ok2 = l->addlast(l, b, VF_ESZ));
        vf_scribble_free(l, b, VF_ESZ);
        const bool full = gmax > 0 && n0 >= gmax;
        VF_ASSERT(ok2 == !full || vf_alloc_failed, FP "setsize.governs: after setsize an append succeeds exactly when num < max or max == 0");
        if (ok2 && !full) g_insert(gn, vfin.val, VF_ESZ);
        CHECK_WF(l);
        VF_ASSERT(vf_matches(l), FP "setsize.then.add: contents exact after setsize + append");
    }
#elif VF_OP == OP_TOARRAY
    {
        size_t sz = 12345;
        size_t *szp = (vfin.wantsize & 1) ? &sz : NULL;
        uint8_t *a;
        CALL(a = l->toarray(l, szp));
        const int e = errno;
        const size_t total = g_datasum();
        if (a != NULL) {
            VF_ASSERT(n0 > 0, FP "toarray.empty: an empty list flattens to NULL");
            VF_ASSERT(szp == NULL || sz == total, FP "toarray.size: flattening reports the total byte size");
            size_t off = 0;
            bool same = true;
            for (size_t i = 0; i < VF_N; i++) {
                for (size_t k = 0; k < BMAX; k++)
                    if (k < gs[i] && a[off + k] != gb[i][k]) same = false;
                off += gs[i];
            }
            VF_ASSERT(same, FP "toarray.bytes: flattening is the concatenation of the elements in list order");
            VF_ASSERT(!vf_is_internal(l, a), "C12.list.toarray.copy: toarray returns an independent allocation");
            ret_copy = a; ret_size = 0; /* contents compared above; kept only to be released after the list */
        } else {
            VF_ASSERT(n0 == 0 || vf_alloc_failed, FP "toarray.ok: flattening a non-empty list succeeds");
            if (n0 == 0) VF_ASSERT(e == ENOENT && (szp == NULL || sz == 0), FP "toarray.empty.errno: empty list reports ENOENT and size 0");
            else VF_ASSERT(e == ENOMEM, FP "toarray.errno.nomem: allocation failure is reported as ENOMEM");
        }
        CHECK_WF(l);
        VF_ASSERT(vf_matches(l), FP "toarray.pure: toarray does not modify the list");
    }
#elif VF_OP == OP_TOSTRING
    {
        char *s;
        CALL(s = l->tostring(l));
        const int e = errno;
        if (s != NULL) {
            VF_ASSERT(n0 > 0, FP "tostring.empty: an empty list has no string form (NULL)");
            /* documented rule: one trailing NUL of each element is not copied; the result is always NUL terminated */
            size_t off = 0;
            bool same = true;
            for (size_t i = 0; i < VF_N; i++) {
                size_t len = gs[i];
                if (gb[i][len - 1] == 0) len--;
                for (size_t k = 0; k < BMAX; k++)
                    if (k < len && (uint8_t)s[off + k] != gb[i][k]) same = false;
                off += len;
            }
            VF_ASSERT(same, FP "tostring.bytes: string form is the concatenation of the elements, each without its one trailing NUL");
            VF_ASSERT(s[off] == '\0', FP "tostring.term: string form is NUL terminated right after the last copied byte");
            VF_ASSERT(!vf_is_internal(l, s), "C12.list.tostring.copy: tostring returns an independent allocation");
            ret_copy = s; ret_size = 0;
        } else {
            VF_ASSERT(n0 == 0 || vf_alloc_failed, FP "tostring.ok: string form of a non-empty list succeeds");
            if (n0 == 0) VF_ASSERT(e == ENOENT, FP "tostring.empty.errno: empty list reports ENOENT");
            else VF_ASSERT(e == ENOMEM, FP "tostring.errno.nomem: allocation failure is reported as ENOMEM");
        }
        CHECK_WF(l);
        VF_ASSERT(vf_matches(l), FP "tostring.pure: tostring does not modify the list");
    }
#elif VF_OP == OP_WALK
    {
        qlist_obj_t o;
        memset(&o, 0, sizeof(o)); /* documented protocol: zeroed cursor */
        const bool nm = vfin.newmem & 1;
        size_t k = 0;
        for (; k < VF_N + 1; k++) {
            bool more;
            errno = 0;
            CALL(more = l->getnext(l, &o, nm));
            if (!more) break;
            VF_ASSERT(k < n0, FP "walk.end: the walk yields no more than num elements");
            if (k < n0) {
                VF_ASSERT(o.size == gs[k] && g_elem_eq(o.data, k), FP "walk.order: walking yields the elements (size and bytes) in list order");
                if (nm) {
                    VF_ASSERT(!vf_is_internal(l, o.data), "C12.list.walk.copy: walk with the copy flag returns independent allocations");
                    walk_copy[k] = o.data; walk_n = k + 1;
                } else {
                    VF_ASSERT(o.data == vf_ndata[k < VF_N ? k : 0], FP "walk.nocopy: walk without the copy flag hands out the stored block itself");
                }
            }
        }
        VF_ASSERT(k == n0 || vf_alloc_failed, FP "walk.count: walking yields every element exactly once and then ends");
        if (k == n0) VF_ASSERT(errno == ENOENT, FP "walk.errno: the end of the walk reports ENOENT");
        CHECK_WF(l);
        VF_ASSERT(vf_matches(l), FP "walk.pure: walking does not modify the list");
    }
#elif VF_OP == OP_SIZE
    {
        size_t a, b;
        CALL(a = l->size(l));
        CALL(b = l->datasize(l));
        VF_ASSERT(a == n0, FP "size: size() is the element count");
        VF_ASSERT(b == g_datasum(), FP "datasize: datasize() is the sum of the element sizes");
        CHECK_WF(l);
        VF_ASSERT(vf_matches(l), FP "size.pure: size()/datasize() do not modify the list");
    }
#elif VF_OP == OP_LOCK
    {
        l->lock(l);
        l->lock(l);
#ifdef VF_TS
        VF_ASSERT(vf_lock_depth == depth0 + 2, "C14.list.lockunlock: lock() enters the (recursive) critical section");
#endif
        l->unlock(l);
        l->unlock(l);
        VF_ASSERT(vf_lock_depth == depth0, "C14.list.lockunlock: matching unlock() calls leave the lock released");
        VF_ASSERT(vf_matches(l), FP "lock.pure: lock()/unlock() do not modify the list");
    }
#endif
    vf_alloc_active = 0;

    /* ---------- cross-cutting post-conditions ---------- */
    VF_ASSERT(vf_lock_depth == depth0, "C14.list.lock: the operation returns with the container lock released");
#ifdef VF_ALLOCFAIL
    if (vf_alloc_failed) VF_COVER("alloc-failed");
    /* contents after a reported failure are covered by the vf_matches assertions above (ideal sequence updated only
     * on success); here: invariant holds and later operations behave normally */
    VF_ASSERT(vf_wf(l), "C15.list.inv: representation invariant holds after allocation failure");
    {
        uint8_t *b = vf_caller_buf(vfin.val2, VF_ESZ);
        bool ok3 = l->addlast(l, b, VF_ESZ);
        free(b);
        const bool full = gmax > 0 && gn >= gmax;
        VF_ASSERT(ok3 == !full, "C15.list.after.add: after an allocation failure a later append behaves normally");
        if (ok3 && !full) g_insert(gn, vfin.val2, VF_ESZ);
        VF_ASSERT(vf_wf(l) && vf_matches(l), "C15.list.after.state: after an allocation failure later operations see exact contents");
    }
#endif

    /* copies stay intact after the container is released (C12); nothing leaks (C11) */
    uint8_t keep[BMAX];
    uint8_t wkeep[NCAP][BMAX];
    for (size_t k = 0; k < BMAX; k++)
        if (ret_copy && k < ret_size) keep[k] = ((uint8_t *)ret_copy)[k];
    for (size_t i = 0; i < VF_N; i++)
        for (size_t k = 0; k < BMAX; k++)
            if (i < walk_n && k < gs[i]) wkeep[i][k] = ((uint8_t *)walk_copy[i])[k];
    CALL(l->free(l));
    if (ret_copy) {
        bool same = true;
        for (size_t k = 0; k < BMAX; k++)
            if (k < ret_size && ((uint8_t *)ret_copy)[k] != keep[k]) same = false;
        VF_ASSERT(same, "C12.list.copy.survives: a returned copy stays intact after the container is released");
        free(ret_copy);
    }
    for (size_t i = 0; i < VF_N; i++) {
        if (i < walk_n) {
            bool same = true;
            for (size_t k = 0; k < BMAX; k++)
                if (k < gs[i] && ((uint8_t *)walk_copy[i])[k] != wkeep[i][k]) same = false;
            VF_ASSERT(same, "C12.list.copy.survives: a copy returned by the walk stays intact after the container is released");
            free(walk_copy[i]);
        }
    }
    VF_ASSERT(vf_live_blocks == live_base, LEAK "after free() every block the container allocated has been released");
    VF_REACH("end");
#endif
}
#include "vf_main.h"
