/* C13: linearizability of two overlapping calls on a thread-safe container, by INTERLEAVING INJECTION.
 *
 * CBMC's own thread encoding refuses this code (shared heap pointers), so the schedule is made an explicit
 * solver variable: the harness is single-threaded; logical thread T1 runs its call; the lock model of stubs.h
 * calls vf_sched_hook at every OUTERMOST lock acquisition (before it) and every outermost release (after it) of
 * T1's call, and at the scheduling point number vfin.sched the hook runs logical thread T2's WHOLE call.
 * Critical sections exclude each other, so the accesses a race can affect are exactly those T1 makes outside its
 * critical sections; this enumerates all interleavings of two calls at the granularity "lock acquire/release and
 * the accesses outside the lock" (T2 before/after T1 are the two sequential orders).
 * Post: (result of T1, result of T2, final contents) equals the outcome of T1;T2 or of T2;T1 on an ideal
 * sequence kept by the harness.
 *
 * VF_CONT 1: vector (element size 1), 2: list (elements of 1 byte).  The pre-state is built through the public
 * API (n <= 2 appends of symbolic bytes); T1/T2 operation kinds are per-query constants, their arguments symbolic.
 */
#include "vf.h"
#include "stubs.h"
#if VF_CONT == 1
#include "containers/qvector.c"
typedef qvector_t cont_t;
#define SEQP "C10."
#else
#define SEQP "C09."
#define VF_CN "list"
#include "listmem.h"
#include "containers/qlist.c"
typedef qlist_t cont_t;
#endif

#define OP_ADDLAST 1
#define OP_ADDFIRST 2
#define OP_ADDAT 3
#define OP_POPFIRST 4
#define OP_POPLAST 5
#define OP_REMOVEAT 6
#define OP_GETAT 7    /* copying get */
#define OP_SETAT 8    /* vector only */
#define OP_CLEAR 9
#define OP_TOARRAY 10
#define OP_SIZE 11
#define OP_TOSTRING 12 /* list only */
#define OP_WALKLOCKED 13 /* lock(); getnext() until false; unlock(): must observe one consistent snapshot */
#define OP_REVERSE 14

#ifndef VF_N0
#define VF_N0 2
#endif
#define CAPX (VF_N0 + 3)

struct vf_input {
    uint8_t init[VF_N0 > 0 ? VF_N0 : 1];
    int idx1, idx2, idx3;
    uint8_t val1, val2, val3;
    uint8_t sched; /* scheduling point at which T2 runs: 0 = before T1, k>=1 = k-th outermost acquire/release of T1, 99 = after T1 */
};
extern struct vf_input vfin;

/* ---------- ideal sequence of bytes ---------- */
struct seq { uint8_t e[CAPX]; int n; };
struct res { int ok; int has; uint8_t val; int alen; uint8_t arr[CAPX]; };

static long norm(long i, int n) { return i < 0 ? i + n : i; }
static void seq_ins(struct seq *s, int pos, uint8_t v) {
    for (int i = CAPX - 1; i > 0; i--) if (i > pos && i <= s->n) s->e[i] = s->e[i - 1];
    for (int i = 0; i < CAPX; i++) if (i == pos) s->e[i] = v;
    s->n++;
}
static void seq_del(struct seq *s, int pos) {
    for (int i = 0; i + 1 < CAPX; i++) if (i >= pos) s->e[i] = s->e[i + 1];
    s->n--;
}
static uint8_t seq_at(const struct seq *s, int pos) {
    uint8_t v = 0;
    for (int i = 0; i < CAPX; i++) if (i == pos) v = s->e[i];
    return v;
}
static uint8_t seq_at_arr(const uint8_t *t, int pos) {
    uint8_t v = 0;
    for (int i = 0; i < CAPX; i++) if (i == pos) v = t[i];
    return v;
}
/* sequential specification of one operation */
static void ideal(struct seq *s, int op, long idx, uint8_t val, struct res *r) {
    r->ok = 0; r->has = 0; r->val = 0; r->alen = -1;
    long p;
    switch (op) {
#ifdef VF_MAXSZ
#define FULL(s) ((s)->n >= VF_MAXSZ)   /* bounded list: additions beyond the limit are refused (ENOBUFS) */
#else
#define FULL(s) 0
#endif
    case OP_ADDLAST: if (!FULL(s)) { seq_ins(s, s->n, val); r->ok = 1; } break;
    case OP_ADDFIRST: if (!FULL(s)) { seq_ins(s, 0, val); r->ok = 1; } break;
    case OP_ADDAT:
        if (FULL(s)) break;
#if VF_CONT == 1
        p = norm(idx, s->n);
#else
        p = idx < 0 ? idx + s->n + 1 : idx; /* list: -1 appends (see qlist_addat documentation) */
#endif
        if (p >= 0 && p <= s->n) { seq_ins(s, (int)p, val); r->ok = 1; }
        break;
    case OP_POPFIRST: if (s->n > 0) { r->ok = 1; r->has = 1; r->val = seq_at(s, 0); seq_del(s, 0); } break;
    case OP_POPLAST: if (s->n > 0) { r->ok = 1; r->has = 1; r->val = seq_at(s, s->n - 1); seq_del(s, s->n - 1); } break;
    case OP_REMOVEAT: p = norm(idx, s->n); if (p >= 0 && p < s->n) { seq_del(s, (int)p); r->ok = 1; } break;
    case OP_GETAT: p = norm(idx, s->n); if (p >= 0 && p < s->n) { r->ok = 1; r->has = 1; r->val = seq_at(s, (int)p); } break;
    case OP_SETAT: p = norm(idx, s->n); if (p >= 0 && p < s->n) { for (int i = 0; i < CAPX; i++) if (i == p) s->e[i] = val; r->ok = 1; } break;
    case OP_CLEAR: s->n = 0; r->ok = 1; break;
    case OP_TOARRAY:
    case OP_TOSTRING:
        if (s->n > 0) { r->ok = 1; r->alen = s->n; for (int i = 0; i < CAPX; i++) r->arr[i] = i < s->n ? s->e[i] : 0; }
        else r->alen = 0;
        break;
    case OP_SIZE: r->ok = 1; r->alen = s->n; break;
    case OP_WALKLOCKED: r->ok = 1; r->alen = s->n; for (int i = 0; i < CAPX; i++) r->arr[i] = i < s->n ? s->e[i] : 0; break;
    case OP_REVERSE: {
        uint8_t t[CAPX];
        for (int i = 0; i < CAPX; i++) t[i] = s->e[i];
        for (int i = 0; i < CAPX; i++) if (i < s->n) s->e[i] = seq_at_arr(t, s->n - 1 - i);
        r->ok = 1;
        break;
    }
    }
}

/* ---------- the real calls ---------- */
static void real(cont_t *c, int op, int idx, uint8_t val, struct res *r) {
    r->ok = 0; r->has = 0; r->val = 0; r->alen = -1;
    uint8_t v = val;
    void *p = NULL;
    size_t sz = 0;
    switch (op) {
#if VF_CONT == 1
    case OP_ADDLAST: r->ok = c->addlast(c, &v); break;
    case OP_ADDFIRST: r->ok = c->addfirst(c, &v); break;
    case OP_ADDAT: r->ok = c->addat(c, idx, &v); break;
    case OP_POPFIRST: p = c->popfirst(c); break;
    case OP_POPLAST: p = c->poplast(c); break;
    case OP_REMOVEAT: r->ok = c->removeat(c, idx); break;
    case OP_GETAT: p = c->getat(c, idx, true); break;
    case OP_SETAT: r->ok = c->setat(c, idx, &v); break;
    case OP_CLEAR: c->clear(c); r->ok = 1; break;
    case OP_TOARRAY: p = c->toarray(c, &sz); r->alen = (int)sz; if (p) { r->ok = 1; for (int i = 0; i < CAPX; i++) r->arr[i] = i < (int)sz ? ((uint8_t *)p)[i] : 0; free(p); } p = NULL; break;
    case OP_SIZE: r->ok = 1; r->alen = (int)c->size(c); break;
    case OP_REVERSE: c->reverse(c); r->ok = 1; break;
    case OP_WALKLOCKED: {
        qvector_obj_t o;
        memset(&o, 0, sizeof(o));
        int n = 0;
        c->lock(c);
        for (int i = 0; i < CAPX + 1; i++) { if (!c->getnext(c, &o, false)) break; if (n < CAPX) r->arr[n] = *(uint8_t *)o.data; n++; }
        c->unlock(c);
        for (int i = 0; i < CAPX; i++) if (i >= n) r->arr[i] = 0;
        r->ok = 1; r->alen = n;
        break;
    }
#else
    case OP_ADDLAST: r->ok = c->addlast(c, &v, 1); break;
    case OP_ADDFIRST: r->ok = c->addfirst(c, &v, 1); break;
    case OP_ADDAT: r->ok = c->addat(c, idx, &v, 1); break;
    case OP_POPFIRST: p = c->popfirst(c, &sz); break;
    case OP_POPLAST: p = c->poplast(c, &sz); break;
    case OP_REMOVEAT: r->ok = c->removeat(c, idx); break;
    case OP_GETAT: p = c->getat(c, idx, &sz, true); break;
    case OP_CLEAR: c->clear(c); r->ok = 1; break;
    case OP_TOARRAY: p = c->toarray(c, &sz); r->alen = (int)sz; if (p) { r->ok = 1; for (int i = 0; i < CAPX; i++) r->arr[i] = i < (int)sz && i < CAPX ? ((uint8_t *)p)[i] : 0; free(p); } p = NULL; break;
    case OP_TOSTRING: { char *s = c->tostring(c); if (s) { r->ok = 1; int l = 0; for (int i = 0; i < CAPX; i++) if (l == i && s[i] != 0) l = i + 1; r->alen = l; for (int i = 0; i < CAPX; i++) r->arr[i] = i < l ? (uint8_t)s[i] : 0; free(s); } else r->alen = 0; } break;
    case OP_SIZE: r->ok = 1; r->alen = (int)c->size(c); break;
    case OP_REVERSE: c->reverse(c); r->ok = 1; break;
    case OP_WALKLOCKED: {
        qlist_obj_t o;
        memset(&o, 0, sizeof(o));
        int n = 0;
        c->lock(c);
        for (int i = 0; i < CAPX + 1; i++) { if (!c->getnext(c, &o, false)) break; if (n < CAPX) r->arr[n] = *(uint8_t *)o.data; n++; }
        c->unlock(c);
        for (int i = 0; i < CAPX; i++) if (i >= n) r->arr[i] = 0;
        r->ok = 1; r->alen = n;
        break;
    }
#endif
    default: break;
    }
    if (p) { r->ok = 1; r->has = 1; r->val = *(uint8_t *)p; free(p); }
}

static bool res_eq(const struct res *a, const struct res *b) {
    if (a->ok != b->ok || a->has != b->has || a->alen != b->alen) return false;
    if (a->has && a->val != b->val) return false;
    if (a->alen > 0) for (int i = 0; i < CAPX; i++) if (i < a->alen && a->arr[i] != b->arr[i]) return false;
    return true;
}
static bool contents_eq(cont_t *c, const struct seq *s) {
#if VF_CONT == 1
    if ((int)c->num != s->n) return false;
    for (int i = 0; i < CAPX; i++) if (i < s->n && ((uint8_t *)c->data)[i] != s->e[i]) return false;
    return true;
#else
    if ((int)c->num != s->n || (int)c->datasum != s->n) return false;
    qlist_obj_t *o = c->first;
    for (int i = 0; i < CAPX; i++) {
        if (i >= s->n) break;
        if (o == NULL || o->size != 1 || *(uint8_t *)o->data != s->e[i]) return false;
        o = o->next;
    }
    return o == NULL;
#endif
}

static cont_t *g_c;
static struct res g_r2;
static int g_t2_done;
static unsigned g_points;
static void run_t2(void) {
    g_t2_done = 1;
    real(g_c, VF_OP2, vfin.idx2, vfin.val2, &g_r2);
}
/* lock-discipline monitor (see schedmap.c): the structural pointers are hidden while T1 is outside its critical sections */
#if VF_CONT == 1
static void *sv_data;
static void hide(cont_t *c) { sv_data = c->data; c->data = NULL; }
static void show(cont_t *c) { c->data = sv_data; }
#else
static qlist_obj_t *sv_first, *sv_last;
static void hide(cont_t *c) { sv_first = c->first; sv_last = c->last; c->first = NULL; c->last = NULL; }
static void show(cont_t *c) { c->first = sv_first; c->last = sv_last; }
#endif
static void hook(int what) {
    g_points++;
    if (what == VF_SCHED_ACQUIRE) show(g_c);
    if (!g_t2_done && g_points == vfin.sched) run_t2();
    if (what == VF_SCHED_RELEASE) hide(g_c);
}

void vf_harness(void) {
#if VF_CONT == 1
    cont_t *c = qvector(VF_N0 + 1, 1, QVECTOR_THREADSAFE | QVECTOR_RESIZE_DOUBLE);
#else
    cont_t *c = qlist(QLIST_THREADSAFE);
#endif
    VF_ASSUME(c != NULL);
    struct seq s0; s0.n = 0;
    for (int i = 0; i < CAPX; i++) s0.e[i] = 0;
    for (int i = 0; i < VF_N0; i++) {
        uint8_t b = vfin.init[i];
#if VF_CONT == 1
        bool ok = c->addlast(c, &b);
#else
        VF_ASSUME(b != 0); /* tostring treats elements as text */
        bool ok = c->addlast(c, &b, 1);
#endif
        VF_ASSUME(ok);
        seq_ins(&s0, s0.n, b);
    }
#if VF_CONT != 1
    VF_ASSUME(vfin.val1 != 0 && vfin.val2 != 0 && vfin.val3 != 0);
#ifdef VF_MAXSZ
    c->setsize(c, VF_MAXSZ);
#endif
#endif
    g_c = c;
    struct res r1;
#ifdef VF_SEQ3
    /* --- HISTORY query: three calls in a row (kinds constant per query, arguments symbolic) from the API-built state; each
     * result and the final contents must equal the ideal sequence's.  Complements the one-step queries (which start from a
     * hand-built pre-state): state that one call leaves behind for a later one - cached positions, flags, stale pointers -
     * is exercised here through the public API only. */
    {
        struct seq m = s0;
        struct res i1, i2, i3, r2, r3;
        real(c, VF_OP1, vfin.idx1, vfin.val1, &r1); ideal(&m, VF_OP1, vfin.idx1, vfin.val1, &i1);
        VF_ASSERT(res_eq(&r1, &i1) && contents_eq(c, &m), SEQP "seq.step1: first call of a three-call history returns and leaves what the ideal sequence does");
        real(c, VF_OP2, vfin.idx2, vfin.val2, &r2); ideal(&m, VF_OP2, vfin.idx2, vfin.val2, &i2);
        VF_ASSERT(res_eq(&r2, &i2) && contents_eq(c, &m), SEQP "seq.step2: second call of a three-call history returns and leaves what the ideal sequence does");
        real(c, VF_OP3, vfin.idx3, vfin.val3, &r3); ideal(&m, VF_OP3, vfin.idx3, vfin.val3, &i3);
        VF_ASSERT(res_eq(&r3, &i3) && contents_eq(c, &m), SEQP "seq.step3: third call of a three-call history returns and leaves what the ideal sequence does");
        VF_ASSERT(vf_lock_depth == 0, "C14.seq.lock: every call returns with the lock released");
        c->free(c);
        VF_REACH("end");
    }
#else
    /* --- concurrent execution: T1 with T2 injected at scheduling point vfin.sched --- */
    if (vfin.sched == 0) run_t2();
    vf_sched_hook = hook;
    hide(c);
    real(c, VF_OP1, vfin.idx1, vfin.val1, &r1);
    show(c);
    vf_sched_hook = NULL;
    if (!g_t2_done) { VF_COVER("t2-after"); run_t2(); } else if (vfin.sched != 0) VF_COVER("t2-inside");
    VF_ASSERT(vf_lock_depth == 0, "C14.sched.lock: both calls return with the lock released");

    /* --- the two sequential outcomes on the ideal sequence --- */
    struct seq a = s0, b = s0;
    struct res a1, a2, b1, b2;
    ideal(&a, VF_OP1, vfin.idx1, vfin.val1, &a1); ideal(&a, VF_OP2, vfin.idx2, vfin.val2, &a2); /* T1 ; T2 */
    ideal(&b, VF_OP2, vfin.idx2, vfin.val2, &b2); ideal(&b, VF_OP1, vfin.idx1, vfin.val1, &b1); /* T2 ; T1 */
    bool lin_a = res_eq(&r1, &a1) && res_eq(&g_r2, &a2) && contents_eq(c, &a);
    bool lin_b = res_eq(&r1, &b1) && res_eq(&g_r2, &b2) && contents_eq(c, &b);
    VF_ASSERT(lin_a || lin_b, "C13.linearizable: results and final contents equal those of one of the two sequential orders (no update lost, duplicated or half-applied; no access to the container structure outside its lock)");
    if (vfin.sched == 0) VF_ASSERT(lin_b, "C13.seq.t2t1: the harness model agrees with the code for the sequential order T2;T1");
    c->free(c);
    VF_REACH("end");
#endif
}
#include "vf_main.h"
