/* vf_main.h - include LAST in every harness, after `struct vf_input` and
 * `vf_harness` are defined. Defines the global symbolic input `vfin` and main.
 * (vfin is declared `extern` by the harness before use: see VF_DECL_INPUT.) */
#ifndef VF_MAIN_H
#define VF_MAIN_H
struct vf_input vfin;
#ifdef VF_CBMC
int main(void) {
    struct vf_input vf_nd_tmp; /* uninitialised local == nondeterministic */
    vfin = vf_nd_tmp;
    vf_harness();
    return 0;
}
#else
#ifdef VF_REPLAY_FILL
#include VF_REPLAY_FILL
#else
static void vf_replay_fill(void) {}
#endif
int main(void) {
    memset(&vfin, 0, sizeof(vfin));
    vf_replay_fill();
    vf_harness();
    fprintf(stderr, "VF_REPLAY_DONE\n");
    return 0;
}
#endif
#endif
