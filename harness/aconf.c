/* C17 / C20 (Apache halves): Apache-style configuration parser, src/extensions/qaconf.c
 * (qaconf(), addoptions, setdefhandler, setuserdata, parse -> _parse_inline, errmsg, free)
 * plus qstrtrim() of src/utilities/qstring.c, attacked through LINE TEMPLATES.
 *
 * One query = one document SHAPE chosen by the driver (vlib/fam/aconf.py): per line the kind
 * (blank / comment / option / <open> / </close> / raw), the number of words, the quoting style
 * and length of every word, the position of every padding byte and of every escape.  The harness
 * PRINTS the document from that template; every padding byte, every name/argument/comment byte,
 * the option table (names, take flags, section ids, scopes, callback present or not), the parser
 * flags, the presence of a default handler and the callbacks' verdicts are symbolic.
 *
 *   VF_MODE 17: safety configuration (pointer/bounds checks on).  The template may contain
 *               arbitrary bytes of the syntactically significant alphabet (unbalanced quotes,
 *               trailing backslash, stray brackets ...).  Claim: terminates, no access outside the
 *               exactly sized line copy / own allocations, returns a count or -1 with a message.
 *   VF_MODE 20: functional.  Expected accept/reject, callback stream, argument strings, nesting,
 *               boolean normalisation, return value and error line are computed from the template
 *               and the declarations by the reference code below and compared with what the
 *               recording callbacks saw.
 *
 * Environment model (all by macro renaming before the real .c files are included):
 *   fopen/fgets/fclose   in-memory file: fgets delivers the next template line
 *   vsnprintf            writes "E", captures the "%s:%d" line-number argument of the message
 *   strcmp/strcasecmp    byte loops (ASCII case folding)
 *   memmove              byte loops honouring overlap (CBMC's model uses a symbolic-size array)
 *   strdup               exactly sized heap copy; length and content of the line copy are what the
 *                        template predicts, asserted first (assert-then-use: the object size and
 *                        the positions of syntax bytes are constants of the symbolic execution)
 *   strlen (parser only) computed length asserted equal to the prediction, prediction returned
 *   qstrtrim (call site) the real qstrtrim() runs; its result is asserted equal to the predicted
 *                        text and the buffer is rewritten from the prediction (same device)
 * The line buffer size MAX_LINESIZE is reduced through the QLIBC_VERIF_MAX_LINESIZE hook.
 */
#include "vf.h"
#include <stdio.h>
#include <stdarg.h>
#include <strings.h>

#ifndef VF_MODE
#define VF_MODE 20
#endif
#if VF_MODE == 17
#define FP "C17.aconf."
#else
#define FP "C20.aconf."
#endif

#ifndef VF_NLINES
#define VF_NLINES 1
#endif
#ifndef VF_TPLMAX
#define VF_TPLMAX 24
#endif
#ifndef VF_NSYM
#define VF_NSYM 4
#endif
#ifndef VF_MAXW
#define VF_MAXW 2          /* longest word content */
#endif
#ifndef VF_MAXWORDS
#define VF_MAXWORDS 3      /* name + 2 arguments */
#endif
#ifndef VF_NOPT
#define VF_NOPT 1
#endif
#ifndef VF_NAMELEN
#define VF_NAMELEN 1
#endif
#ifndef QLIBC_VERIF_MAX_LINESIZE
#define QLIBC_VERIF_MAX_LINESIZE 32
#endif
#define VF_LMAX QLIBC_VERIF_MAX_LINESIZE

/* template piece codes */
#define P_END (-1)
#define P_WBEG (-2)   /* a word starts (no output) */
#define P_WEND (-3)   /* a word ends (no output) */
#define P_SYM(cls) (-(100 + (cls)))   /* symbolic byte of class cls; inside a word it is content */
#define P_LITC(c) (-(1000 + (c)))    /* literal byte that is word content (first name byte after '<': keeps the line kind constant) */
#define CL_PAD 0      /* ' ' or '\t' */
#define CL_ANY 1      /* any byte of the significant alphabet */
#define CL_NWS 2      /* alphabet, not white space */
#define CL_NWSGT 3    /* alphabet, not white space, not '>' */
#define CL_BARE 4     /* byte of an unquoted word */
#define CL_SQ 5       /* unescaped byte inside '...' */
#define CL_DQ 6       /* unescaped byte inside "..." */
#define CL_ESC 7      /* byte following a backslash inside quotes */
#define CL_NAME1 8    /* first byte of a directive name on an option line */
#define CL_NAME1S 9   /* first byte of a directive name after '<' */
#define CL_CMT 10     /* comment text */
#define CL_NWSSL 11   /* alphabet, not white space, not '/' */
#define CL_CMTE 12    /* last byte of a comment: not white space */

/* line kinds */
#define K_BLANK 0
#define K_COMMENT 1
#define K_OPT 2
#define K_OPEN 3
#define K_CLOSE 4
#define K_RAW 5       /* mode 17 only: no expectation attached */

struct vf_input {
    unsigned char b[VF_NSYM > 0 ? VF_NSYM : 1];     /* every symbolic document byte */
    unsigned char oname[VF_NOPT][VF_NAMELEN];       /* registered option names */
    uint32_t take[VF_NOPT];
    uint32_t sectionid[VF_NOPT], sections[VF_NOPT];
    uint8_t nocb[VF_NOPT];                           /* option registered with cb == NULL */
    uint8_t flags;                                   /* parser flags */
    uint8_t defcb;                                   /* setdefhandler() called */
    uint8_t cbfail[VF_NLINES];                       /* the callback invoked for this line returns an error string */
    uint8_t open_fails;                              /* fopen() returns NULL */
};
extern struct vf_input vfin;

/* ------------------------------------------------------------------ document */
static const short vf_tpl[VF_NLINES][VF_TPLMAX] = VF_TPL;
static const signed char vf_kind[VF_NLINES] = VF_KINDS;
/* geometry the template predicts, per line: number of leading blank bytes, length of the text left by
 * trimming, offset (within that text) and length of the part the parser copies with strdup (-1: no copy),
 * alternative copy length (-1: none; blanks before '>' may or may not be part of the copy) */
static const signed char vf_geo[VF_NLINES][5] = VF_GEO;

static char vf_lines[VF_NLINES][VF_LMAX];
static int vf_len[VF_NLINES];
/* what the document says (filled while printing) */
static int x_nwords[VF_NLINES];
static int x_wlen[VF_NLINES][VF_MAXWORDS];
static unsigned char x_word[VF_NLINES][VF_MAXWORDS][VF_MAXW + 1];

static bool vf_in_class(int cls, unsigned char c) {
    bool ws = c == ' ' || c == '\t';
    bool alpha = c == 'a' || c == '1' || c == '"' || c == '\'' || c == '\\' || c == ' ' || c == '\t' || c == '<' || c == '>' || c == '/' || c == '#';
    bool bare = c != 0 && c != ' ' && c != '\t' && c != '\r' && c != '\n' && c != '"' && c != '\'' && c != '\\';
    switch (cls) {
    case CL_PAD: return ws;
    case CL_ANY: return alpha;
    case CL_NWS: return alpha && !ws;
    case CL_NWSGT: return alpha && !ws && c != '>';
    case CL_NWSSL: return alpha && !ws && c != '/';
    case CL_BARE: return bare;
    case CL_SQ: return c != 0 && c != '\n' && c != '\'' && c != '\\';
    case CL_DQ: return c != 0 && c != '\n' && c != '"' && c != '\\';
    case CL_ESC: return c != 0 && c != '\n';
    case CL_NAME1: return bare && c != '#' && c != '<';
    case CL_NAME1S: return bare && c != '/';
    case CL_CMT: return c != 0 && c != '\n';
    case CL_CMTE: return c != 0 && c != '\n' && c != '\r' && c != ' ' && c != '\t';
    default: return false;
    }
}

static void vf_print_document(void) {
    int k = 0;
    for (int l = 0; l < VF_NLINES; l++) {
        int pos = 0, w = -1, wl = 0;
        bool inw = false;
        for (int i = 0; i < VF_TPLMAX; i++) {
            int p = vf_tpl[l][i];
            if (p == P_END) break;
            if (p == P_WBEG) { w++; wl = 0; inw = true; continue; }
            if (p == P_WEND) { if (w < VF_MAXWORDS) x_wlen[l][w] = wl; inw = false; continue; }
            unsigned char c;
            if (p >= 0) c = (unsigned char)p;          /* syntax: quotes, backslash, brackets, newline */
            else {
                if (p <= -1000) c = (unsigned char)(-p - 1000);
                else {
                    c = vfin.b[k++];
                    VF_ASSUME(vf_in_class(-p - 100, c));
                }
                if (inw && w < VF_MAXWORDS && wl < VF_MAXW) x_word[l][w][wl] = c;
                if (inw) wl++;
            }
            vf_lines[l][pos++] = (char)c;
        }
        vf_len[l] = pos;
        x_nwords[l] = w + 1;
    }
}

/* ------------------------------------------------------------------ environment */
static int vf_cur, vf_last = -1, vf_opened, vf_closed, vf_reads_after_error;
static int vf_err_calls, vf_err_line = -2, vf_err_is_bool;
static int vf_file_obj;
static char *vf_bufp;      /* the parser's line buffer (as handed to fgets) */
static int vf_buflen = -1; /* length of its content as predicted by the template; -1: no prediction */

static FILE *vf_fopen(const char *p, const char *m) {
    (void)p; (void)m;
    if (vfin.open_fails) return NULL;
    vf_opened++;
    vf_cur = 0;
    return (FILE *)&vf_file_obj;
}
static int vf_fclose(FILE *fp) { (void)fp; vf_closed++; return 0; }
static char *vf_fgets(char *s, int size, FILE *fp) {
    VF_ASSERT(fp == (FILE *)&vf_file_obj, FP "env.fp: reads use the stream fopen() returned");
    if (vf_err_calls > 0) vf_reads_after_error++;
    if (vf_cur >= VF_NLINES) return NULL;
    for (int l = 0; l < VF_NLINES; l++) {
        if (vf_cur == l) {
            VF_ASSERT(vf_len[l] < size, FP "env.linesize: template line fits the (reduced) line buffer");
            for (int i = 0; i < vf_len[l]; i++) s[i] = vf_lines[l][i];
            s[vf_len[l]] = 0;
            vf_bufp = s;
            vf_buflen = -1;
            vf_last = l;
            vf_cur = l + 1;
            return s;
        }
    }
    return NULL;
}
/* formatted error text is outside every claim; the line number argument of the
 * "%s:%d " prefix used by every parse error is captured */
#ifdef VF_CUT
static void vf_at_error(void);
#endif
static int vf_vsnprintf(char *s, size_t n, const char *fmt, va_list ap) {
    vf_err_calls++;
    if (fmt[0] == '%' && fmt[1] == 's' && fmt[2] == ':' && fmt[3] == '%' && fmt[4] == 'd') {
        const char *path = va_arg(ap, const char *);
        (void)path;
        vf_err_line = va_arg(ap, int);
        /* the message text is outside every claim; it is looked at only to file a refused boolean under its own tag */
        static const char btxt[] = "%dth argument of '%s' must be b";
        bool isb = true;
        for (int i = 0; i < (int)sizeof(btxt) - 1; i++) if (isb && fmt[6 + i] != btxt[i]) isb = false;
        vf_err_is_bool = isb;
#ifdef VF_CUT
        vf_at_error();
#endif
    } else {
        vf_err_line = -1;
    }
    if (n >= 2) { s[0] = 'E'; s[1] = 0; }
    return 1;
}
/* comparison models: the terminator test is made on the second string (the registered name or
 * a literal in every call of the code under test), which ends the unrolling at a constant */
static int vf_strcasecmp(const char *a, const char *b) {
    for (;; a++, b++) {
        unsigned char x = (unsigned char)*a, y = (unsigned char)*b;
        if (x >= 'A' && x <= 'Z') x = (unsigned char)(x + 32);
        if (y >= 'A' && y <= 'Z') y = (unsigned char)(y + 32);
        if (x != y) return (int)x - (int)y;
        if (y == 0) return 0;
    }
}
static int vf_strcmp(const char *a, const char *b) {
    for (;; a++, b++) {
        unsigned char x = (unsigned char)*a, y = (unsigned char)*b;
        if (x != y) return (int)x - (int)y;
        if (y == 0) return 0;
    }
}
/* memmove: byte loops honouring overlap.  CBMC's own model copies through an array of symbolic
 * size.  Two instances so that the two call sites get their own loop bounds: qstrtrim() moves
 * the line down (destination below source), the tokenizer moves a word up by one. */
static void *vf_memmove_q(void *d, const void *s, size_t n) {
    unsigned char *dd = (unsigned char *)d;
    const unsigned char *ss = (const unsigned char *)s;
    VF_ASSERT(dd <= ss, FP "env.memmove.down: qstrtrim moves towards the start of the buffer (model applicability)");
    for (size_t i = 0; i < n; i++) dd[i] = ss[i];
    return d;
}
static void *vf_memmove_a(void *d, const void *s, size_t n) {
    unsigned char *dd = (unsigned char *)d;
    const unsigned char *ss = (const unsigned char *)s;
    VF_ASSERT(dd >= ss, FP "env.memmove.up: the tokenizer moves a word towards the end of the buffer (model applicability)");
    for (size_t i = n; i > 0; i--) dd[i - 1] = ss[i - 1];
    return d;
}
/* strlen as called by the parser (ENDING_CHAR on the trimmed line buffer): the length is computed, asserted
 * equal to what the template predicts for that suffix of the buffer, and the predicted constant is returned
 * (assert-then-use; keeps "is the last byte '>'" and the bracket stripping at constant positions) */
static size_t vf_strlen(const char *s) {
    size_t n = 0;
    while (s[n] != 0) n++;
    if (vf_bufp != NULL && vf_buflen >= 0) {
        for (int k = 0; k <= vf_buflen; k++) {
            if (s == vf_bufp + k) {
                VF_ASSERT(n == (size_t)(vf_buflen - k), FP "env.strlen: length of the trimmed line buffer is what the template predicts");
                VF_ASSUME(n == (size_t)(vf_buflen - k));
                return (size_t)(vf_buflen - k);
            }
        }
    }
    return n;
}
/* strdup: exactly sized heap copy.  For the copy of the current line the template predicts length
 * and content: both are asserted first, then the copy is built from the prediction, which keeps the
 * object size and the position of every syntax byte constant for the symbolic execution
 * (assert-then-use: no behaviour is excluded as long as the assertion holds) */
static char *vf_linecopy(const char *s, size_t n, int line, int off, int want) {
    bool same = want >= 0 && n == (size_t)want;
    for (int i = 0; i < want; i++) same = same && s[i] == vf_lines[line][off + i];
    VF_ASSERT(same, FP "env.linecopy: the line copy is the trimmed line without its brackets, as the template predicts");
    VF_ASSUME(same);
    char *p = (char *)malloc((size_t)want + 1);      /* exactly sized */
    VF_ASSUME(p != NULL);
    for (int i = 0; i < want; i++) p[i] = vf_lines[line][off + i];
    p[want] = 0;
    return p;
}
static int vf_ndup;
static char *vf_strdup(const char *s) {
    size_t n = 0;
    while (s[n] != 0) n++;
    int line = -1;
    for (int l = 0; l < VF_NLINES; l++) if (vf_last == l) line = l;
    vf_ndup++;
    if (line < 0) {
        char *p = (char *)malloc(n + 1);
        VF_ASSUME(p != NULL);
        for (size_t i = 0; i <= n; i++) p[i] = s[i];
        return p;
    }
    int off = vf_geo[line][0] + vf_geo[line][2];
    /* (two separate calls: each allocation has a constant size) */
    if (vf_geo[line][4] >= 0 && n == (size_t)vf_geo[line][4]) return vf_linecopy(s, n, line, off, vf_geo[line][4]);
    return vf_linecopy(s, n, line, off, vf_geo[line][3]);
}
#undef strdup
#define strdup vf_strdup
#define fopen vf_fopen
#define fclose vf_fclose
#define fgets vf_fgets
#define vsnprintf vf_vsnprintf
#define strcasecmp vf_strcasecmp
#define strcmp vf_strcmp
#define memmove vf_memmove_q
#include "utilities/qstring.c"
#undef memmove
#define memmove vf_memmove_a
/* qstrtrim as called by the parser: the REAL qstrtrim runs on the line buffer, its result is asserted to be
 * the text the template predicts, then the buffer is rewritten from the prediction (same assert-then-use
 * device: restores constant positions after qstrtrim's stores through data-dependent pointers) */
static char *vf_qstrtrim(char *str) {
    char *r = qstrtrim(str);
    for (int l = 0; l < VF_NLINES; l++) {
        if (vf_last != l) continue;
        int lead = vf_geo[l][0], n = vf_geo[l][1];
        bool same = r == str;
        for (int i = 0; i < n; i++) same = same && str[i] == vf_lines[l][lead + i];
        same = same && str[n] == 0;
        VF_ASSERT(same, FP "env.trim: qstrtrim leaves exactly the text between the leading and trailing white space");
        VF_ASSUME(same);
        for (int i = 0; i < n; i++) str[i] = vf_lines[l][lead + i];
        str[n] = 0;
        if (str == vf_bufp) vf_buflen = n;
    }
    return r;
}
#define qstrtrim vf_qstrtrim
#define strlen vf_strlen
#include "extensions/qaconf.c"
#undef strlen
#undef qstrtrim
#undef strdup
#undef memmove
#undef strcmp
#undef fopen
#undef fclose
#undef fgets
#undef vsnprintf
#undef strcasecmp

/* ------------------------------------------------------------------ reference (what the documentation says) */
#if VF_MODE == 20
#define A_SKIP 0      /* blank / comment */
#define A_CB 1        /* registered callback invoked */
#define A_DEFCB 2     /* default handler invoked for an unregistered directive */
#define A_NONE 3      /* accepted, nobody to call */
#define A_REJECT 4
static int e_action[VF_NLINES], e_opt[VF_NLINES], e_depth[VF_NLINES], e_opener[VF_NLINES];
static uint32_t e_section[VF_NLINES], e_sections[VF_NLINES];
static int e_bool[VF_NLINES][VF_MAXWORDS];   /* -1: argument not BOOL typed, else 0/1 */
static int e_reject_line = -1;               /* 0-based line of the first violation */
static int e_count;
static int e_fb_line = -1;               /* first line that passes every declared check and carries a false boolean */

static unsigned char r_lower(unsigned char c) { return (c >= 'A' && c <= 'Z') ? (unsigned char)(c + 32) : c; }
static bool r_name_eq(const unsigned char *a, int alen, const unsigned char *b, int blen, bool ci) {
    if (alen != blen) return false;
    for (int i = 0; i < VF_MAXW; i++)
        if (i < alen && (ci ? r_lower(a[i]) != r_lower(b[i]) : a[i] != b[i])) return false;
    return true;
}
static bool r_digit(unsigned char c) { return c >= '0' && c <= '9'; }
/* INT: [-]digits ; FLOAT: INT or [-]digits.digits */
static int r_number(const unsigned char *s, int n) { /* 0 no, 1 int, 2 float */
    int i = 0, nd1 = 0, nd2 = 0;
    bool dot = false;
    if (n > 0 && s[0] == '-') i = 1;
    for (int j = 0; j < VF_MAXW; j++) {
        if (j < i || j >= n) continue;
        if (r_digit(s[j])) { if (dot) nd2++; else nd1++; }
        else if (s[j] == '.' && !dot) dot = true;
        else return 0;
    }
    if (nd1 == 0) return 0;
    if (dot) return nd2 > 0 ? 2 : 0;
    return 1;
}
static bool r_word_is(const unsigned char *s, int n, const char *w, int wn) {
    if (n != wn) return false;
    for (int i = 0; i < wn && i < VF_MAXW; i++) if (r_lower(s[i]) != (unsigned char)w[i]) return false;
    return true;
}
static int r_bool(const unsigned char *s, int n) { /* 1 true, 0 false, -1 neither */
    if (r_word_is(s, n, "true", 4) || r_word_is(s, n, "on", 2) || r_word_is(s, n, "yes", 3) || r_word_is(s, n, "1", 1)) return 1;
    if (r_word_is(s, n, "false", 5) || r_word_is(s, n, "off", 3) || r_word_is(s, n, "no", 2) || r_word_is(s, n, "0", 1)) return 0;
    return -1;
}
/* declared type of argument j (1-based): 0 str 1 int 2 float 3 bool */
static int r_argtype(uint32_t take, int j) {
    if (take & ((uint32_t)QAC_A1_INT << (j - 1))) return 1;
    if (take & ((uint32_t)QAC_A1_FLOAT << (j - 1))) return 2;
    if (take & ((uint32_t)QAC_A1_BOOL << (j - 1))) return 3;
    if (take & QAC_AA_INT) return 1;
    if (take & QAC_AA_FLOAT) return 2;
    if (take & QAC_AA_BOOL) return 3;
    return 0;
}
static bool r_take_wellformed(uint32_t take) {
    /* documented usage: at most one type per argument position and at most one default type */
    for (int j = 0; j < 6; j++) {
        int n = ((take >> (8 + j)) & 1) + ((take >> (16 + j)) & 1) + ((take >> (24 + j)) & 1);
        if (n > 1) return false;
    }
    return true;
}

static void vf_expect(void) {
    bool ci = (vfin.flags & QAC_CASEINSENSITIVE) != 0, ign = (vfin.flags & QAC_IGNOREUNKNOWN) != 0;
    int depth = 0;
    int opener[VF_NLINES + 1];
    uint32_t cursec[VF_NLINES + 1], cursecs[VF_NLINES + 1];
    cursec[0] = QAC_SECTION_ROOT;
    cursecs[0] = QAC_SECTION_ROOT;
    opener[0] = -1;
    bool rejected = false;
    for (int l = 0; l < VF_NLINES; l++) {
        e_action[l] = A_SKIP;
        e_opt[l] = -1;
        e_depth[l] = depth;
        e_opener[l] = opener[depth];
        e_section[l] = cursec[depth];
        e_sections[l] = cursecs[depth];
        for (int j = 0; j < VF_MAXWORDS; j++) e_bool[l][j] = -1;
        int kind = vf_kind[l];
        if (kind == K_BLANK || kind == K_COMMENT) continue;
        if (rejected) continue;
        bool rej = false;
        /* a closing tag must name the section that is open */
        if (kind == K_CLOSE) {
            if (depth == 0) rej = true;
            else if (!r_name_eq(x_word[l][0], x_wlen[l][0], x_word[opener[depth]][0], x_wlen[opener[depth]][0], ci)) rej = true;
        }
        int found = -1;
        for (int o = 0; o < VF_NOPT; o++)
            if (found < 0 && r_name_eq(x_word[l][0], x_wlen[l][0], vfin.oname[o], VF_NAMELEN, ci)) found = o;
        e_opt[l] = found;
        if (!rej && found >= 0) {
            uint32_t take = vfin.take[found];
            if (kind != K_CLOSE) {
                int nargs = x_nwords[l] - 1;
                if (vfin.sections[found] != QAC_SECTION_ALL && (vfin.sections[found] & cursec[depth]) == 0) rej = true;
                else if ((take & 0xFF) != QAC_TAKEALL && (int)(take & 0xFF) != nargs) rej = true;
                else {
                    for (int j = 1; j < VF_MAXWORDS; j++) {
                        if (j > nargs || rej) continue;
                        int t = r_argtype(take, j);
                        int num = r_number(x_word[l][j], x_wlen[l][j]);
                        if (t == 1 && num != 1) rej = true;
                        else if (t == 2 && num == 0) rej = true;
                        else if (t == 3) {
                            int bv = r_bool(x_word[l][j], x_wlen[l][j]);
                            if (bv < 0) rej = true;
                            else e_bool[l][j] = bv;
                        }
                    }
                }
            }
            if (!rej) {
                bool havecb = !vfin.nocb[found] || vfin.defcb;
                for (int j = 1; j < VF_MAXWORDS; j++) if (e_bool[l][j] == 0 && e_fb_line < 0) e_fb_line = l;
                e_action[l] = havecb ? A_CB : A_NONE;
                if (havecb && vfin.cbfail[l]) rej = true;
            }
        } else if (!rej) {
            if (vfin.defcb) e_action[l] = A_DEFCB;
            else if (ign) e_action[l] = A_NONE;
            else rej = true;
        }
        if (rej) {
            bool cbran = (e_action[l] == A_CB);
            rejected = true;
            e_reject_line = l;
            if (!cbran) e_action[l] = A_REJECT;
            continue;
        }
        e_count++;
        if (kind == K_OPEN) {
            depth++;
            opener[depth] = l;
            cursec[depth] = found >= 0 ? vfin.sectionid[found] : 0;
            cursecs[depth] = cursecs[depth - 1] | cursec[depth];
        } else if (kind == K_CLOSE) {
            depth--;
        }
    }
    if (!rejected && depth > 0) { e_reject_line = VF_NLINES - 1; rejected = true; }
}
#endif

/* ------------------------------------------------------------------ callbacks */
static qaconf_t *vf_conf;
static int vf_cookie;
static int r_called[VF_NLINES], r_defcalled[VF_NLINES], r_calls_after_error, r_badline;

#if VF_MODE == 20
static bool vf_str_is(const char *s, const unsigned char *w, int n) {
    for (int i = 0; i < VF_MAXW; i++) if (i < n && (unsigned char)s[i] != w[i]) return false;
    return s[n] == 0;
}
/* the data of directive line l as the documentation describes it */
static void vf_check_data(qaconf_cbdata_t *d, int l) {
    VF_ASSERT(d->argc == x_nwords[l], FP "cb.argc: argc = 1 + number of arguments written");
    VF_ASSERT(vf_str_is(d->argv[0], x_word[l][0], x_wlen[l][0]), FP "cb.name: argv[0] is the directive name as written");
    for (int j = 1; j < VF_MAXWORDS; j++) {
        if (j >= x_nwords[l] || j >= d->argc) continue;
        if (e_bool[l][j] == 1) { VF_ASSERT(d->argv[j][0] == '1' && d->argv[j][1] == 0, FP "cb.bool.true: a true spelling reaches the callback as \"1\""); VF_COVER("bool-true"); }
        else if (e_bool[l][j] == 0) { VF_ASSERT(d->argv[j][0] == '0' && d->argv[j][1] == 0, FP "cb.bool.false: a false spelling reaches the callback as \"0\""); VF_COVER("bool-false"); }
        else VF_ASSERT(vf_str_is(d->argv[j], x_word[l][j], x_wlen[l][j]), FP "cb.arg: argument split, unquoted and unescaped by the documented rules");
    }
    VF_ASSERT(d->level == e_depth[l], FP "cb.level: level = number of enclosing sections");
    VF_ASSERT(d->section == e_section[l], FP "cb.section: section = id of the enclosing section (ROOT at top level)");
    VF_ASSERT(d->sections == e_sections[l], FP "cb.sections: sections = OR of the enclosing section ids");
    if (e_opener[l] < 0) VF_ASSERT(d->parent == NULL, FP "cb.parent.root: no parent at top level");
    else VF_ASSERT(d->parent != NULL, FP "cb.parent.link: directive inside a section has a parent");
}
#endif

static char *vf_cb_common(qaconf_cbdata_t *data, void *userdata, bool viadef) {
    VF_ASSERT(userdata == (void *)&vf_cookie, FP "cb.userdata: callbacks receive the registered userdata");
    VF_ASSERT(data != NULL && data->argc >= 1 && data->argv != NULL, FP "cb.data: argc >= 1 and argv present");
    if (vf_err_calls > 0) r_calls_after_error++;
    int ln = vf_conf->lineno - 1;
    char *ret = NULL;
    bool hit = false;
    for (int l = 0; l < VF_NLINES; l++) {
        if (ln != l) continue;
        hit = true;
        if (viadef) r_defcalled[l]++; else r_called[l]++;
#if VF_MODE == 20
        if (e_action[l] == A_DEFCB) {
            /* unregistered directive handed to the default handler: its own data */
            VF_ASSERT((int)data->otype == (vf_kind[l] == K_OPT ? QAC_OTYPE_OPTION : vf_kind[l] == K_OPEN ? QAC_OTYPE_SECTIONOPEN : QAC_OTYPE_SECTIONCLOSE),
                      FP "defcb.otype: default handler sees the directive type");
            VF_ASSERT(vf_str_is(data->argv[0], x_word[l][0], x_wlen[l][0]), FP "defcb.name: default handler sees the directive name");
            VF_COVER("defcb-unregistered");
        } else if (e_action[l] == A_CB) {
            if (vf_kind[l] == K_CLOSE) {
                VF_ASSERT(data->otype == QAC_OTYPE_SECTIONCLOSE, FP "cb.otype.close: closing callback has otype SECTIONCLOSE");
                for (int m = 0; m < VF_NLINES; m++) if (e_opener[l] == m) vf_check_data(data, m);   /* the opening directive's data */
                VF_COVER("cb-close");
            } else {
                VF_ASSERT((int)data->otype == (vf_kind[l] == K_OPT ? QAC_OTYPE_OPTION : QAC_OTYPE_SECTIONOPEN), FP "cb.otype: option / section-open type");
                vf_check_data(data, l);
                if (vf_kind[l] == K_OPEN) { VF_COVER("cb-open"); } else { VF_COVER("cb-option"); }
                if (e_opener[l] >= 0 && data->parent != NULL) {
                    VF_COVER("cb-nested");
                    /* parent chain: the enclosing section's opening data, still typed as an open section */
                    qaconf_cbdata_t *p = data->parent;
                    VF_ASSERT(p->otype == QAC_OTYPE_SECTIONOPEN, FP "cb.parent.otype: parent is the enclosing section's opening directive");
                    for (int m = 0; m < VF_NLINES; m++) if (e_opener[l] == m) vf_check_data(p, m);
                }
            }
            if (vfin.cbfail[l]) {
                ret = (char *)malloc(2);
                VF_ASSUME(ret != NULL);
                ret[0] = 'U'; ret[1] = 0;
            }
        }
#else
        /* touch what the callback is given */
        for (int j = 0; j < data->argc && j < VF_LMAX; j++) {
            size_t n = strlen(data->argv[j]);
            VF_ASSERT(n < VF_LMAX, FP "cb.argv: every argv[j] is a terminated string");
        }
#endif
    }
    if (!hit) r_badline++;
    return ret;
}
static char *vf_cb(qaconf_cbdata_t *data, void *userdata) { return vf_cb_common(data, userdata, false); }
/* default handler; also serves registered options whose cb is NULL */
static char *vf_defcb(qaconf_cbdata_t *data, void *userdata) { return vf_cb_common(data, userdata, true); }

/* compare outcome r (count, or -1 = an error was reported) and the callback record with the reference */
#if VF_MODE == 20
static void vf_verdict(int r) {
    bool e_ok = e_reject_line < 0;
    bool fb_rejected = false;
    for (int l = 0; l < VF_NLINES; l++)
        if (e_fb_line == l && r == -1 && vf_err_line == l + 1 && vf_err_is_bool && r_called[l] == 0 && r_defcalled[l] == 0) fb_rejected = true;
    if (fb_rejected) {
        /* the line satisfies every declaration, its callback (if any) never ran, yet it was refused */
        VF_ASSERT(0, FP "bool.false: a BOOL argument spelled Off/No/False/0 (any case) satisfies the declaration and is delivered as \"0\"");
        return;
    }
    if (e_ok) {
        VF_ASSERT(r >= 0, FP "accept: a document satisfying the declarations is accepted");
        if (r >= 0) VF_ASSERT(r == e_count, FP "count: return value = number of directives processed");
    } else {
        VF_ASSERT(r == -1, FP "reject: a document violating a declaration (count, type, scope, unknown directive, nesting, callback error) yields -1");
        if (r == -1) VF_ASSERT(vf_err_line == e_reject_line + 1, FP "reject.line: the error message names the offending line");
    }
    if (e_ok == (r >= 0)) {
        for (int l = 0; l < VF_NLINES; l++) {
            bool after = e_reject_line >= 0 && l > e_reject_line;
            bool nocb = e_opt[l] >= 0 && vfin.nocb[e_opt[l]];
            int wantcb = (!after && e_action[l] == A_CB && !nocb) ? 1 : 0;
            int wantdef = (!after && (e_action[l] == A_DEFCB || (e_action[l] == A_CB && nocb))) ? 1 : 0;
            VF_ASSERT(r_called[l] == wantcb, FP "stream.cb: the registered callback runs exactly once per accepted registered directive, never otherwise");
            VF_ASSERT(r_defcalled[l] == wantdef, FP "stream.defcb: the default handler runs exactly for unregistered directives and registered ones without callback");
        }
    }
}
#endif
#ifdef VF_CUT
/* VF_CUT: the query follows every execution up to the first parse error it reports; what has to hold at that
 * moment (a rejection is due, at this line, callbacks so far as expected) is checked here and the execution is
 * abandoned.  (Keeps documents with properly closed sections tractable: without error paths the file position is a
 * constant at every read.  What happens after the report - unwinding, -1 - is checked by the queries without VF_CUT.) */
static void vf_at_error(void) {
    VF_ASSERT(vf_reads_after_error == 0 && r_calls_after_error == 0 && vf_err_calls == 1, FP "stop: the first error report ends the parse");
#if VF_MODE == 20
    vf_verdict(-1);
#endif
    VF_COVER("reject");
    VF_ASSUME(0);
}
#endif

/* ------------------------------------------------------------------ harness */
void vf_harness(void) {
    vf_print_document();

    /* option table: caller data in exactly sized heap objects */
    qaconf_option_t *opts = (qaconf_option_t *)malloc(sizeof(qaconf_option_t) * (VF_NOPT + 1));
    VF_ASSUME(opts != NULL);
    char *names[VF_NOPT];
    for (int o = 0; o < VF_NOPT; o++) {
        names[o] = (char *)malloc(VF_NAMELEN + 1);
        VF_ASSUME(names[o] != NULL);
        for (int i = 0; i < VF_NAMELEN; i++) {
            unsigned char c = vfin.oname[o][i];
            VF_ASSUME(vf_in_class(CL_BARE, c));
            names[o][i] = (char)c;
        }
        names[o][VF_NAMELEN] = 0;
#if VF_MODE == 20
        VF_ASSUME(r_take_wellformed(vfin.take[o]));
        /* option names are unique (documented), also when compared case-insensitively */
        for (int q = 0; q < o; q++) VF_ASSUME(!r_name_eq(vfin.oname[o], VF_NAMELEN, vfin.oname[q], VF_NAMELEN, true));
#endif
        VF_ASSUME(vfin.sectionid[o] < 0x80000000u); /* bound: section ids that fit the parser's int/enum temporaries */
        opts[o].name = names[o];
        opts[o].take = vfin.take[o];
        opts[o].cb = vfin.nocb[o] ? NULL : vf_cb;
        opts[o].sectionid = vfin.sectionid[o];
        opts[o].sections = vfin.sections[o];
    }
    opts[VF_NOPT].name = NULL; opts[VF_NOPT].take = 0; opts[VF_NOPT].cb = NULL; opts[VF_NOPT].sectionid = 0; opts[VF_NOPT].sections = 0;

#if VF_MODE == 20
    vf_expect();
#endif

    qaconf_t *c = qaconf();
    VF_ASSUME(c != NULL);
    vf_conf = c;
    int na = c->addoptions(c, opts);
    VF_ASSERT(na == VF_NOPT, FP "addoptions: returns the number of options registered");
    /* the table was copied: the caller's array may go away (names stay referenced: documented shallow copy) */
    free(opts);
    if (vfin.defcb) c->setdefhandler(c, vf_defcb);
    c->setuserdata(c, &vf_cookie);

    int r = c->parse(c, "f", vfin.flags & 3);
    const char *em = c->errmsg(c);

    VF_ASSERT(r >= -1, FP "ret: parse returns a count or -1");
    VF_ASSERT((r == -1) == (em != NULL), FP "errmsg: -1 is returned exactly when an error message is set");
    VF_ASSERT(vf_reads_after_error == 0 && r_calls_after_error == 0, FP "stop: nothing is read or called back after an error was reported");
    VF_ASSERT(r_badline == 0, FP "cb.when: callbacks happen while a template line is current");
    if (vfin.open_fails) {
        VF_ASSERT(r == -1 && vf_opened == 0, FP "open: unreadable file is an error");
        VF_COVER("open-fails");
    } else {
        VF_ASSERT(vf_opened == 1 && vf_closed == 1, FP "close: the file is opened once and closed");
#if VF_MODE == 20
        vf_verdict(r);
        if (r >= 0) { VF_COVER("accept"); } else { VF_COVER("reject"); }
#else
        if (r >= 0) { VF_COVER("accept"); } else { VF_COVER("reject"); }
#endif
    }
    c->free(c);
    for (int o = 0; o < VF_NOPT; o++) free(names[o]);
    VF_REACH("end");
}
#include "vf_main.h"
