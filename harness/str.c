/* C19: string utilities of src/utilities/qstring.c against the reference
 * specifications of ref/strspec.h.
 *
 * One function (VF_FN) and one tuple of LENGTHS per query, all of them compile-time
 * constants chosen by vlib/props/c19.py:
 *   VF_N   length of the source string / text / data
 *   VF_T   length of the token / delimiter / start string
 *   VF_W   length of the replacement word / end string
 *   VF_SZ  destination size handed to qstrcpy/qstrncpy/qstrgets
 *   VF_K   (in-place replace that can grow) number of replacements: fixes the capacity
 *          "enough space" of the documentation to exactly max(N, result length)+1
 * Every BYTE is symbolic over all 256 values (bytes inside strings: all non-NUL
 * values); every string lives in an exactly sized heap object, so - with the
 * pointer/bounds checks of the 'safety' configuration - a read or write outside
 * the buffers the contract covers is a failed built-in check (owner C19).
 *
 * libc models defined here (listed in c19.py meta 'stubs'):
 *   strstr  CBMC has no model; vf_strstr below (only qstrdup_between uses it), compared
 *           natively with glibc: gcc -DVF_STRSTR_SELFTEST -Iharness harness/str.c && ./a.out
 *   strlen  (qstrreplace queries) / strdup (qstrtokenizer queries): return / allocate the
 *           construction-time length of the strings the harness registered - as a constant,
 *           after asserting that a byte scan gives the same length.  Without this the sizes
 *           qstring.c passes to malloc are symbolic values and the queries run out of memory.
 * Layout exception VF_LEAD: see vf_heapstr_lead.
 */
#include "vf.h"
#include <stdio.h>

static char *vf_strstr(const char *h, const char *n) {
    for (;; h++) {
        size_t j = 0;
        while (n[j] != 0 && h[j] == n[j]) j++;
        if (n[j] == 0) return (char *)h;
        if (*h == 0) return NULL;
    }
}
#ifndef VF_STRSTR_SELFTEST
/* strlen for qstrreplace: CBMC's strlen of a string of symbolic bytes is a symbolic value
 * (the solver, not the symbolic executor, knows the bytes are non-NUL), which makes the
 * size qstrreplace passes to malloc symbolic - the one thing that does not scale.  For the
 * strings the harness built itself (registered with their construction-time length) the
 * model returns that length as a constant, after asserting that a byte scan agrees; any
 * other pointer is scanned.  Only active in the qstrreplace queries. */
#define VF_KNOWN 4
static const char *vf_known_str[VF_KNOWN];
static size_t vf_known_len[VF_KNOWN];
static size_t vf_strlen(const char *s) {
    size_t l = 0;
    while (s[l] != 0) l++;
    for (int i = 0; i < VF_KNOWN; i++)
        if (vf_known_str[i] != NULL && s == vf_known_str[i]) {
            VF_ASSERT(l == vf_known_len[i], "C19.harness.strlen-model: registered length equals the scanned length");
            return vf_known_len[i];
        }
    return l;
}
#if VF_FN == 16
#include "stubs.h" /* qstrtokenizer builds a qlist: shared lock model (pthread/usleep) + allocator shim of the container harnesses */
/* strdup of a registered string: a block of exactly (registered length + 1) bytes - a
 * constant size (a working copy of symbolic size that qstrtok then cuts up does not scale);
 * unregistered strings are scanned as usual */
static char *vf_strdup_known(const char *s) {
    size_t n = vf_strlen(s) + 1;
    char *p = vf_malloc(n);
    for (size_t i = 0; i < n; i++) p[i] = s[i];
    return p;
}
#undef strdup
#define strdup vf_strdup_known
#endif
#define strstr vf_strstr
#if VF_FN == 5 || VF_FN == 6
#define strlen vf_strlen
#endif
#include "utilities/qstring.c"
#include "containers/qlist.c"
#undef strstr
#undef strlen
#include "strspec.h"

/* function selectors */
#define TRIM 1
#define TRIM_HEAD 2
#define TRIM_TAIL 3
#define UNCHAR 4
#define REPLACE 5
#define BADMODE 6
#define CPY 7
#define NCPY 8
#define BETWEEN 9
#define MEMDUP 10
#define GETS 11
#define REV 12
#define UPPER 13
#define LOWER 14
#define TOK 15
#define TOKENIZER 16
#define NULLARGS 17

#ifndef VF_FN
#define VF_FN TRIM
#endif
#ifndef VF_N
#define VF_N 3
#endif
#ifndef VF_T
#define VF_T 1
#endif
#ifndef VF_W
#define VF_W 1
#endif
#ifndef VF_SZ
#define VF_SZ 2
#endif
#define N ((size_t)VF_N)
#define T ((size_t)VF_T)
#define W ((size_t)VF_W)
#define SZ ((size_t)VF_SZ)
#define NN (VF_N > 0 ? VF_N : 1)
#define TT (VF_T > 0 ? VF_T : 1)
#define WW (VF_W > 0 ? VF_W : 1)
#define DD (VF_N + VF_SZ + 8)
/* longest possible replace result (+1) */
#define OUTMAX (VF_N * WW + 1)

struct vf_input {
    unsigned char s[NN];    /* source string / text / data */
    unsigned char tok[TT];  /* token set / search string / delimiters / start string */
    unsigned char word[WW]; /* replacement word / end string */
    unsigned char d[DD];    /* previous contents of the destination buffer */
    unsigned char head, tail, flag, stop0;
    unsigned char mode[4];
    size_t nbytes;
    size_t off;
};
extern struct vf_input vfin;

/* a C string of exactly n non-NUL symbolic bytes in a heap object of cap (> n) bytes */
static char *vf_heapstr(const unsigned char *b, size_t n, size_t cap) {
    char *p = malloc(cap);
    VF_ASSUME(p != NULL);
    for (size_t i = 0; i < n; i++) {
        VF_ASSUME(b[i] != 0);
        p[i] = (char)b[i];
    }
    p[n] = 0;
    return p;
}
/* VF_LEAD=1: the string starts at byte 1 of its heap object (byte 0 is a symbolic guard
 * byte that must survive the call); the upper end stays exact.  Needed where qstring.c
 * forms - without dereferencing - the address str-1 on an empty/all-blank string
 * (qstrtrim, qstrtrim_tail, qstrrev): CBMC evaluates a relational comparison with a
 * pointer below its object as if the offset were huge, a modelling artefact no flat
 * address space shares (the native replay passes). */
#ifndef VF_LEAD
#define VF_LEAD 0
#endif
static char *vf_heapstr_lead(const unsigned char *b, size_t n) {
    char *p = vf_heapstr(b, n, n + 1 + VF_LEAD) ;
#if VF_LEAD
    for (size_t i = n + 1; i > 0; i--) p[i] = p[i - 1];
    p[0] = (char)vfin.head;
#endif
    return p;
}
#if VF_LEAD
#define CHECK_LEAD(base) VF_ASSERT((unsigned char)(base)[0] == vfin.head, "C19.lead-guard: the byte in front of the string is not written")
#else
#define CHECK_LEAD(base) ((void)0)
#endif
/* heap object of exactly n bytes with arbitrary previous contents */
static char *vf_heapbuf(const unsigned char *b, size_t n) {
    char *p = malloc(n);
    VF_ASSUME(p != NULL);
    for (size_t i = 0; i < n; i++) p[i] = (char)b[i];
    return p;
}

#define CHECK_STR(p, exp, len, tag)                                                     \
    do {                                                                                \
        for (size_t i_ = 0; i_ < (len); i_++) VF_ASSERT((unsigned char)(p)[i_] == (exp)[i_], tag); \
        VF_ASSERT((p)[len] == 0, tag);                                                  \
    } while (0)
#define CHECK_BYTES(p, exp, len, tag)                                                   \
    do {                                                                                \
        for (size_t i_ = 0; i_ < (len); i_++) VF_ASSERT((unsigned char)(p)[i_] == (exp)[i_], tag); \
    } while (0)

void vf_harness(void) {
    /* the symbolic bytes, copied out of vfin into plain arrays: everything below (reference
     * functions, expected values, comparisons) reads these through byte pointers at symbolic
     * indexes, which CBMC 6.11 handles reliably for plain arrays (see GUIDE, "pitfall") */
    unsigned char S[NN], TK[TT], WD[WW], D[DD];
    for (size_t i = 0; i < NN; i++) S[i] = vfin.s[i];
    for (size_t i = 0; i < TT; i++) TK[i] = vfin.tok[i];
    for (size_t i = 0; i < WW; i++) WD[i] = vfin.word[i];
    for (size_t i = 0; i < DD; i++) D[i] = vfin.d[i];
#if VF_FN == TRIM || VF_FN == TRIM_HEAD || VF_FN == TRIM_TAIL
    char *base = vf_heapstr_lead(S, N);
    char *s = base + VF_LEAD;
    size_t a, b;
#if VF_FN == TRIM
    spec_trim_extent(S, N, 1, 1, &a, &b);
    char *r = qstrtrim(s);
#elif VF_FN == TRIM_HEAD
    spec_trim_extent(S, N, 1, 0, &a, &b);
    char *r = qstrtrim_head(s);
#else
    spec_trim_extent(S, N, 0, 1, &a, &b);
#if !VF_LEAD
    VF_ASSUME(b > 0); /* not empty/all-blank: those make qstrtrim_tail form str-1, see VF_LEAD */
#endif
    char *r = qstrtrim_tail(s);
#endif
    VF_ASSERT(r == s, "C19.trim.ret: returns the pointer it was given");
    CHECK_STR(s, S + a, b - a, "C19.trim.result: exactly the leading/trailing blanks, tabs, CRs, LFs are removed, in place");
    if (a > 0) VF_COVER("trim.head-removed");
    if (b < N) VF_COVER("trim.tail-removed");
    if (N > 0 && a == b) VF_COVER("trim.all-blank");
    if (a == 0 && b == N) VF_COVER("trim.nothing-to-remove");
    CHECK_LEAD(base);
    free(base);
    VF_REACH("end");

#elif VF_FN == UNCHAR
    char *s = vf_heapstr(S, N, N + 1);
    char head = (char)vfin.head, tail = (char)vfin.tail;
    int both = N >= 2 && S[0] == vfin.head && S[N - 1] == vfin.tail;
    char *r = qstrunchar(s, head, tail);
    if (both) {
        VF_ASSERT(r == s, "C19.unchar.ret: returns the string when head and tail characters were removed");
        CHECK_STR(s, S + 1, N - 2, "C19.unchar.result: first and last character removed, rest unchanged");
        VF_COVER("unchar.removed");
    } else {
        VF_ASSERT(r == NULL, "C19.unchar.refuse: NULL unless the string starts with head and ends with tail (two distinct positions)");
        CHECK_STR(s, S, N, "C19.unchar.refuse-unchanged: a refused string is not modified");
        VF_COVER("unchar.refused");
    }
    free(s);
    VF_REACH("end");

#elif VF_FN == REPLACE
    /* VF_RMODE: 0 "tn", 1 "tr", 2 "sn", 3 "sr" */
#define TOKMODE (VF_RMODE < 2)
#define INPLACE (VF_RMODE & 1)
    static const char *const modes[4] = {"tn", "tr", "sn", "sr"};
    unsigned char out[OUTMAX];
    size_t cnt, olen;
    for (size_t i = 0; i < N; i++) VF_ASSUME(S[i] != 0);
    for (size_t i = 0; i < T; i++) VF_ASSUME(TK[i] != 0);
    for (size_t i = 0; i < W; i++) VF_ASSUME(WD[i] != 0);
#if TOKMODE
    olen = spec_replace_tok(S, N, TK, T, WD, W, out, &cnt);
#define GROW (VF_W - 1)
#else
    olen = spec_replace_str(S, N, TK, T, WD, W, out, &cnt);
#define GROW (VF_W - VF_T)
#endif
#if INPLACE
    /* "given source string should have enough space": capacity = exactly what the
     * larger of source and result needs */
#ifdef VF_K
    VF_ASSUME(cnt == VF_K);
#define OUTK (VF_N + VF_K * GROW)
    const size_t cap = (size_t)((OUTK > VF_N ? OUTK : VF_N) + 1);
#else
    _Static_assert(GROW <= 0, "growing in-place replace needs VF_K");
    const size_t cap = N + 1;
#endif
#else
    const size_t cap = N + 1;
#endif
    char *mode = vf_heapbuf((const unsigned char *)modes[VF_RMODE], 3);
    char *src = vf_heapstr(S, N, cap);
    char *tok = vf_heapstr(TK, T, T + 1);
    char *word = vf_heapstr(WD, W, W + 1);
    vf_known_str[0] = mode; vf_known_len[0] = 2;
    vf_known_str[1] = src; vf_known_len[1] = N;
    vf_known_str[2] = tok; vf_known_len[2] = T;
    vf_known_str[3] = word; vf_known_len[3] = W;
    char *r = qstrreplace(mode, src, tok, word);
#if INPLACE
    VF_ASSERT(r == src, "C19.replace.inplace.ret: 'r' modes return the source pointer");
    CHECK_STR(src, out, olen, "C19.replace.inplace.result: source buffer holds exactly the reference replacement");
#else
    VF_ASSERT(r != NULL, "C19.replace.new.ret: 'n' modes return a string");
    VF_ASSERT(!VF_SAME_OBJECT(r, src) && r != src, "C19.replace.new.fresh: 'n' modes return new memory");
    CHECK_STR(r, out, olen, "C19.replace.new.result: returned string is exactly the reference replacement");
    CHECK_STR(src, S, N, "C19.replace.new.src-unchanged: 'n' modes leave the source alone");
    free(r);
#endif
    CHECK_STR(tok, TK, T, "C19.replace.args-unchanged: token string is not modified");
    CHECK_STR(word, WD, W, "C19.replace.args-unchanged: word is not modified");
    if (cnt > 0) VF_COVER("replace.replaced-at-least-once");
    if (cnt > 1) VF_COVER("replace.replaced-twice");
    if (cnt == 0) VF_COVER("replace.nothing-replaced");
    if (olen > N) VF_COVER("replace.result-longer");
    if (olen < N) VF_COVER("replace.result-shorter");
    free(mode); free(src); free(tok); free(word);
    VF_REACH("end");

#elif VF_FN == BADMODE
    /* VF_ML: length of the mode string (0..3); for length 2 any pair that is not one of tn/tr/sn/sr */
#ifndef VF_ML
#define VF_ML 2
#endif
    char *mode = vf_heapstr(vfin.mode, VF_ML, VF_ML + 1);
#if VF_ML == 2
    VF_ASSUME(!((mode[0] == 't' || mode[0] == 's') && (mode[1] == 'n' || mode[1] == 'r')));
    if (mode[0] == 't' || mode[0] == 's') VF_COVER("badmode.bad-memuse");
    if (mode[1] == 'n' || mode[1] == 'r') VF_COVER("badmode.bad-method");
#endif
    char *src = vf_heapstr(S, N, N + 1);
    char *tok = vf_heapstr(TK, T, T + 1);
    char *word = vf_heapstr(WD, W, W + 1);
    vf_known_str[0] = mode; vf_known_len[0] = VF_ML;
    vf_known_str[1] = src; vf_known_len[1] = N;
    vf_known_str[2] = tok; vf_known_len[2] = T;
    vf_known_str[3] = word; vf_known_len[3] = W;
    char *r = qstrreplace(mode, src, tok, word);
    VF_ASSERT(r == NULL, "C19.replace.badmode: a mode other than tn/tr/sn/sr yields NULL");
    CHECK_STR(src, S, N, "C19.replace.badmode-unchanged: source not modified when the mode is refused");
    free(mode); free(src); free(tok); free(word);
    VF_REACH("end");

#elif VF_FN == CPY || VF_FN == NCPY
    /* VF_OV == 0: separate exactly sized objects (dst: SZ bytes, src: N+1 bytes).
     * VF_OV  > 0: one object, dst = src + VF_OV.   VF_OV < 0: one object, src = dst + |VF_OV|. */
#ifndef VF_OV
#define VF_OV 0
#endif
    for (size_t i = 0; i < N; i++) VF_ASSUME(S[i] != 0);
#if VF_OV == 0
    char *src = vf_heapstr(S, N, N + 1);
    char *dst = vf_heapbuf(D, SZ);
    char *base = NULL;
#else
#define SRCOFF (VF_OV < 0 ? -(VF_OV) : 0)
#define DSTOFF (VF_OV > 0 ? (VF_OV) : 0)
#define BSZ ((SRCOFF + VF_N + 1) > (DSTOFF + VF_SZ) ? (SRCOFF + VF_N + 1) : (DSTOFF + VF_SZ))
    char *base = vf_heapbuf(D, BSZ);
    char *src = base + SRCOFF, *dst = base + DSTOFF;
    for (size_t i = 0; i < N; i++) src[i] = (char)S[i];
    src[N] = 0;
#endif
#if VF_FN == CPY
    size_t k = spec_min(N, SZ > 0 ? SZ - 1 : 0);
    char *r = qstrcpy(dst, SZ, src);
#else
    /* VF_NCLASS 0: nbytes <= strlen(src); 1: nbytes > strlen(src) ("no more than n bytes" of the source STRING) */
    size_t nb = vfin.nbytes;
#if VF_NCLASS == 0
    VF_ASSUME(nb <= N);
#else
    VF_ASSUME(nb > N);
#endif
    size_t k = spec_min(spec_min(N, nb), SZ > 0 ? SZ - 1 : 0);
    char *r = qstrncpy(dst, SZ, src, nb);
#endif
    VF_ASSERT(r == dst, "C19.copy.ret: always returns dst");
#if VF_SZ > 0
    CHECK_STR(dst, S, k, "C19.copy.result: dst holds the first min(len, n, size-1) source bytes and is NUL-terminated inside size");
#if VF_OV == 0
    /* never writes at or beyond size: dst is exactly SZ bytes (pointer check) */
    CHECK_STR(src, S, N, "C19.copy.src-unchanged: source is only read");
#endif
#else
    VF_COVER("copy.size-zero");
#endif
    if (k < N) VF_COVER("copy.truncated-copy");
    if (k == N) VF_COVER("copy.full-copy");
#if VF_OV == 0
    free(src); free(dst);
#else
    free(base);
#endif
    VF_REACH("end");

#elif VF_FN == BETWEEN
    char *s = vf_heapstr(S, N, N + 1);
    char *st = vf_heapstr(TK, T, T + 1);
    char *en = vf_heapstr(WD, W, W + 1);
    long a = spec_find(S, N, 0, TK, T), e = -1;
    if (a >= 0) e = spec_find(S, N, (size_t)a + T, WD, W);
    char *r = qstrdup_between(s, st, en);
    if (a < 0 || e < 0) {
        VF_ASSERT(r == NULL, "C19.between.none: NULL when start, or end after it, does not occur");
        VF_COVER("between.not-found");
    } else {
        VF_ASSERT(r != NULL && !VF_SAME_OBJECT(r, s), "C19.between.ret: new string");
        CHECK_STR(r, S + a + T, (size_t)e - ((size_t)a + T), "C19.between.result: text between the first start and the first end after it");
        if ((size_t)e > (size_t)a + T) VF_COVER("between.non-empty");
        free(r);
    }
    CHECK_STR(s, S, N, "C19.between.src-unchanged: source is only read");
    free(s); free(st); free(en);
    VF_REACH("end");

#elif VF_FN == MEMDUP
    char *data = vf_heapbuf(S, N);
    char *r = qmemdup(data, N);
#if VF_N == 0
    VF_ASSERT(r == NULL, "C19.memdup.zero: size 0 yields NULL");
#else
    VF_ASSERT(r != NULL && !VF_SAME_OBJECT(r, data) && r != data, "C19.memdup.ret: new memory");
    CHECK_BYTES(r, S, N, "C19.memdup.result: identical bytes");
    CHECK_BYTES(data, S, N, "C19.memdup.src-unchanged: source is only read");
    free(r);
#endif
    free(data);
    VF_REACH("end");

#elif VF_FN == GETS
    char *text = vf_heapstr(S, N, N + 1);
    char *buf = vf_heapbuf(D, SZ);
    size_t off = vfin.off;
    VF_ASSUME(off <= N);
    char *cur = text + off;
    unsigned char out[NN];
    size_t olen = 0, noff = 0;
    int ok = spec_gets(S, N, off, SZ, out, &olen, &noff);
    char *r = qstrgets(buf, SZ, &cur);
    if (!ok) {
        VF_ASSERT(r == NULL, "C19.gets.eof: NULL at the end of the text");
        VF_ASSERT(cur == text + off, "C19.gets.eof-offset: offset stays at the end");
        CHECK_BYTES(buf, D, SZ, "C19.gets.eof-buf: buffer untouched at end of text");
        VF_COVER("gets.eof");
    } else {
        VF_ASSERT(r == buf, "C19.gets.ret: returns the buffer");
        CHECK_STR(buf, out, olen, "C19.gets.line: buffer holds the line without CR/LF, NUL-terminated inside size");
        VF_ASSERT(cur == text + noff, "C19.gets.offset: offset advanced past the consumed characters (past the LF)");
        if (noff > off && S[noff - 1] == '\n') VF_COVER("gets.line-ended-by-LF");
        if (noff == N) VF_COVER("gets.last-line");
        if (noff - off == SZ - 1 && noff < N && S[noff - 1] != '\n') VF_COVER("gets.truncated-line");
    }
    CHECK_STR(text, S, N, "C19.gets.text-unchanged: text is only read");
    free(text); free(buf);
    VF_REACH("end");

#elif VF_FN == REV || VF_FN == UPPER || VF_FN == LOWER
    char *base = vf_heapstr_lead(S, N);
    char *s = base + VF_LEAD;
    unsigned char exp[NN];
    for (size_t i = 0; i < N; i++) {
#if VF_FN == REV
        exp[i] = S[N - 1 - i];
#elif VF_FN == UPPER
        exp[i] = spec_upper(S[i]);
#else
        exp[i] = spec_lower(S[i]);
#endif
    }
#if VF_FN == REV
    char *r = qstrrev(s);
#elif VF_FN == UPPER
    char *r = qstrupper(s);
#else
    char *r = qstrlower(s);
#endif
    VF_ASSERT(r == s, "C19.map.ret: returns the pointer it was given");
    CHECK_STR(s, exp, N, "C19.map.result: reversal / case conversion (ASCII letters only) equals the reference, same length");
    CHECK_LEAD(base);
    free(base);
    VF_REACH("end");

#elif VF_FN == TOK
    /* one step of the offset protocol from an arbitrary reachable state: offset in [0, N],
     * bytes before the offset arbitrary (earlier delimiters are already NULs), bytes from
     * the offset to N non-NUL */
    size_t off = vfin.off;
    VF_ASSUME(off <= N);
    char *s = malloc(N + 1);
    VF_ASSUME(s != NULL);
    for (size_t i = 0; i < N; i++) {
        if (i >= off) VF_ASSUME(S[i] != 0);
        s[i] = (char)S[i];
    }
    s[N] = 0;
    char *delims = vf_heapstr(TK, T, T + 1);
    char stop = (char)vfin.stop0;
    char *rs = (vfin.flag & 1) ? &stop : NULL;
    int offset = (int)off;
    size_t q = spec_field_end(S, N, off, TK, T);
    char *r = qstrtok(s, delims, rs, &offset);
    if (off == N) {
        VF_ASSERT(r == NULL, "C19.tok.end: NULL when nothing is left");
        VF_ASSERT(offset == (int)off, "C19.tok.end-offset: offset unchanged at the end");
        if (rs) VF_ASSERT(stop == 0, "C19.tok.end-retstop: stop character is NUL at the end");
        VF_COVER("tok.end");
    } else {
        VF_ASSERT(r == s + off, "C19.tok.ret: token starts at the offset (empty fields are returned, not skipped)");
        if (q < N) {
            VF_ASSERT(offset == (int)(q + 1), "C19.tok.offset: offset is one past the delimiter that ended the token");
            VF_ASSERT(s[q] == 0, "C19.tok.cut: the delimiter is overwritten by NUL");
            if (rs) VF_ASSERT((unsigned char)stop == S[q], "C19.tok.retstop: the stop delimiter is reported");
            if (q == off) VF_COVER("tok.empty-field");
            if (q > off) VF_COVER("tok.field-ended-by-delimiter");
        } else {
            VF_ASSERT(offset == (int)N, "C19.tok.offset-last: after the last token the offset is the end of the string");
            if (rs) VF_ASSERT(stop == 0, "C19.tok.retstop-last: stop character is NUL for the last token");
            VF_COVER("tok.last-field");
        }
    }
    if (!rs) VF_ASSERT((unsigned char)stop == vfin.stop0, "C19.tok.retstop-null: nothing stored without retstop");
    for (size_t i = 0; i <= N; i++)
        if (!(off < N && i == q))
            VF_ASSERT((unsigned char)s[i] == (i < N ? S[i] : 0), "C19.tok.rest-unchanged: only the one delimiter byte is modified");
    CHECK_STR(delims, TK, T, "C19.tok.delims-unchanged: delimiter string is only read");
    free(s); free(delims);
    VF_REACH("end");

#elif VF_FN == TOKENIZER
    char *s = vf_heapstr(S, N, N + 1);
    char *delims = vf_heapstr(TK, T, T + 1);
    size_t start[NN + 1], len[NN + 1];
    unsigned char stopc[NN + 1];
    size_t cnt = spec_split(S, N, TK, T, start, len, stopc);
    vf_known_str[0] = s; vf_known_len[0] = N;
    qlist_t *l = qstrtokenizer(s, delims);
    VF_ASSERT(l != NULL, "C19.tokenizer.ret: returns a list");
    VF_ASSERT(l->num == cnt && qlist_size(l) == cnt, "C19.tokenizer.count: one list element per field, empty fields included");
    qlist_obj_t *o = l->first;
    for (size_t i = 0; i < cnt; i++) {
        VF_ASSERT(o != NULL, "C19.tokenizer.count: one list element per field, empty fields included");
        VF_ASSERT(o->size == len[i] + 1, "C19.tokenizer.size: element size is field length + terminator");
        CHECK_STR((char *)o->data, S + start[i], len[i], "C19.tokenizer.field: i-th element is the i-th field, in order");
        if (len[i] == 0) VF_COVER("tokenizer.empty-field");
        o = o->next;
    }
    VF_ASSERT(o == NULL, "C19.tokenizer.count: no extra elements");
    if (cnt >= 2) VF_COVER("tokenizer.two-or-more-fields");
    CHECK_STR(s, S, N, "C19.tokenizer.src-unchanged: source string is only read");
    qlist_free(l);
    free(s); free(delims);
    VF_REACH("end");

#elif VF_FN == NULLARGS
    char *s = vf_heapstr(S, N, N + 1);
    char *t = vf_heapstr(TK, T, T + 1);
    char *mode = vf_heapbuf((const unsigned char *)"sn", 3);
    char *dst = vf_heapbuf(D, SZ);
    VF_ASSERT(qstrtrim(NULL) == NULL && qstrtrim_head(NULL) == NULL && qstrtrim_tail(NULL) == NULL, "C19.null.trim: NULL in, NULL out");
    VF_ASSERT(qstrunchar(NULL, (char)vfin.head, (char)vfin.tail) == NULL, "C19.null.unchar: NULL in, NULL out");
    VF_ASSERT(qstrreplace(NULL, s, t, t) == NULL && qstrreplace(mode, NULL, t, t) == NULL &&
              qstrreplace(mode, s, NULL, t) == NULL && qstrreplace(mode, s, t, NULL) == NULL, "C19.null.replace: any NULL argument yields NULL");
    VF_ASSERT(qstrcpy(NULL, SZ, s) == NULL && qstrncpy(NULL, SZ, s, vfin.nbytes) == NULL, "C19.null.copy: returns dst");
    VF_ASSERT(qstrcpy(dst, SZ, NULL) == dst && qstrncpy(dst, SZ, NULL, vfin.nbytes) == dst, "C19.null.copy: returns dst");
    CHECK_BYTES(dst, D, SZ, "C19.null.copy-unchanged: dst untouched when src is NULL");
    char *nullp = NULL;
    VF_ASSERT(qstrgets(dst, SZ, NULL) == NULL && qstrgets(dst, SZ, &nullp) == NULL, "C19.null.gets: NULL offset yields NULL");
    VF_ASSERT(qstrrev(NULL) == NULL && qstrupper(NULL) == NULL && qstrlower(NULL) == NULL, "C19.null.map: NULL in, NULL out");
    VF_ASSERT(qmemdup(NULL, N + 1) == NULL && qmemdup(s, 0) == NULL, "C19.null.memdup: NULL data or size 0 yields NULL");
    CHECK_STR(s, S, N, "C19.null.unchanged: refused calls modify nothing");
    CHECK_BYTES(dst, D, SZ, "C19.null.unchanged: refused calls modify nothing");
    free(s); free(t); free(mode); free(dst);
    VF_REACH("end");
#else
#error "unknown VF_FN"
#endif
}
#include "vf_main.h"

#else /* VF_STRSTR_SELFTEST: gcc -DVF_STRSTR_SELFTEST harness/str.c && ./a.out : model vs glibc */
int main(void) {
    unsigned long x = 88172645463325252UL;
    static const char alpha[] = "ab\x80\xff";
    for (int it = 0; it < 200000; it++) {
        char h[8], n[4];
        x ^= x << 13; x ^= x >> 7; x ^= x << 17;
        unsigned long r = x;
        int hl = r % 7; r /= 7;
        int nl = r % 4; r /= 4;
        for (int i = 0; i < hl; i++) { h[i] = alpha[r % 4]; r /= 4; }
        for (int i = 0; i < nl; i++) { n[i] = alpha[r % 4]; r /= 4; }
        h[hl] = 0; n[nl] = 0;
        if (vf_strstr(h, n) != strstr(h, n)) { printf("MISMATCH hay=%s needle=%s\n", h, n); return 1; }
    }
    printf("vf_strstr == glibc strstr on 200000 random (haystack<=6, needle<=3) pairs\n");
    return 0;
}
#endif
