/* Static hash table (src/containers/qhasharr.c): one API step from an arbitrary well-formed image.
 *
 * Knobs are scaled through the guarded hook in qhasharr.h (-DQLIBC_VERIF_HASHARR_NAMESIZE=2
 * -DQLIBC_VERIF_HASHARR_DATASIZE=3): in-slot key limit 2 bytes, first block 3 value bytes, extension
 * block sizeof(pair) bytes - every boundary the property talks about is within reach.
 *
 * Per-query constants (driver, gen/hasharr.py): capacity VF_M, the slot-graph LAYOUT (kind/count/hash-field/
 * link of every slot, i.e. which key owns which chain of blocks), operation, the home slot VF_OPHOME of the
 * operation key, the key class VF_KCLASS (-1: a key not in the table, i: equal to stored key i), the value size.
 * Symbolic: all key bytes and key lengths (1..3: both sides of the in-slot limit), all value bytes, the fill of
 * every final block, garbage in unused bytes,. The raw 32-bit hash is a per-query constant congruent to the home slot.
 * The user region is ONE exactly sized heap object: any access outside it is a pointer-check failure.
 * qhashmurmur3_32 / qhashmd5 are stubbed here (verified on their own in C18); the stubs ASSERT that the table
 * hashes exactly the key bytes it was given.
 */
#include "vf.h"
#include "stubs.h"
/* byte-loop memcpy model: CBMC 6.11's built-in memcpy is imprecise when the source is one of several heap objects of
 * different sizes and the length is symbolic (here: the operation key, 1..3 bytes) */
#define VF_CN "hasharr"
#include "listmem.h"
/* get()/getnext() allocate a size read from a slot selected by a solver-dependent index; a symbolic allocation size
 * is intractable, so non-constant requests are served by an exact-size case split (1..VF_ALLOC_MAX bytes) */
#ifndef VF_ALLOC_MAX
#define VF_ALLOC_MAX 64
#endif
static void *vf_malloc_var(size_t n) {
    void *p = NULL;
    VF_ASSERT(n >= 1 && n <= VF_ALLOC_MAX, "C07.alloc.range: copy-out allocations stay within the size of the stored value (harness bound)");
    for (size_t k = 1; k <= VF_ALLOC_MAX; k++)
        if (n == k) p = vf_malloc(k);
    return p;
}
#undef malloc
#define malloc(n) (__builtin_constant_p(n) ? vf_malloc(n) : vf_malloc_var(n))

#ifndef VF_M
#define VF_M 3
#define VF_NK 1
#define VF_KIND {1, 0, 0}
#define VF_COUNT {1, 0, 0}
#define VF_HF {0, 0, 0}
#define VF_LINK {-1, -1, -1}
#define VF_CH_KEYSLOT {0}
#define VF_CH_HOME {0}
#define VF_CH_LEN {1}
#define VF_CH_SLOTS {{0, -1, -1}}
#define VF_USED 1
#endif
#define M VF_M
#define NK VF_NK
#define NKK (VF_NK > 0 ? VF_NK : 1)
#ifndef VF_OPHOME
#define VF_OPHOME 0
#endif
#ifndef VF_KCLASS
#define VF_KCLASS (-1)
#endif
#ifndef VF_VSZ
#define VF_VSZ 1
#endif

/* hash stubs: the real functions are renamed before qhasharr.c is compiled */
static const uint8_t *vf_opk_ptr;
static size_t vf_opk_len;
static uint32_t vf_hash_raw;
static unsigned vf_hash_calls, vf_md5_calls;
static uint32_t vf_murmur(const void *data, size_t nbytes) {
    vf_hash_calls++;
    VF_ASSERT(data == (const void *)vf_opk_ptr && nbytes == vf_opk_len, "C06.hash.args: the slot index is computed from exactly the key bytes given");
    return vf_hash_raw;
}
/* injective encoding of (length, bytes) for keys up to 3 bytes: equal digest <=> equal key */
static void vf_md5_of(const uint8_t *k, size_t n, uint8_t out[16]) {
    for (int i = 0; i < 16; i++) out[i] = 0;
    out[0] = (uint8_t)n;
    for (size_t i = 0; i < 3; i++) if (i < n) out[1 + i] = k[i];
    out[15] = 0x5a;
}
static bool vf_md5(const void *data, size_t nbytes, void *retbuf) {
    vf_md5_calls++;
    VF_ASSERT(data == (const void *)vf_opk_ptr && nbytes == vf_opk_len, "C06.md5.args: the key digest is computed from exactly the key bytes given");
    vf_md5_of(data, nbytes, retbuf);
    return true;
}
#define qhashmurmur3_32 vf_murmur
#define qhashmd5 vf_md5
#include "utilities/qhash.h"
#include "containers/qhasharr.c"
#undef qhashmurmur3_32
#undef qhashmd5

/* the image assertions belong to C06 (contents, accounting) in the C06 queries and to C07 (well-formedness) in the C07 queries */
#ifdef VF_C07
#define FP "C07.wf."
#elif defined(VF_C12)
#define FP "C12.hasharr.stored." /* C12: stored values are returned byte-for-byte with their exact length */
#else
#define FP "C06."
#endif
#define D Q_HASHARR_DATASIZE
#define E ((int)sizeof(struct Q_HASHARR_SLOT_KEYVAL))
#define NS Q_HASHARR_NAMESIZE
#define VMAX (D + (M - 1) * E)
#define KMAX 3

#define OP_PUT 1
#define OP_GET 2
#define OP_REMOVE 3
#define OP_REMOVE_IDX 4
#define OP_WALK 5
#define OP_CLEAR 6
#define OP_SIZE 7
#define OP_CTOR 8

struct vf_input {
    uint8_t klen[NKK], kb[NKK][KMAX];   /* stored keys */
    uint8_t lastfill[NKK];              /* bytes in the final block of each stored value */
    uint8_t vb[NKK][VMAX];              /* stored values */
    uint8_t opklen, opk[KMAX];          /* operation key (when VF_KCLASS < 0) */
    uint8_t v[VF_VSZ > 0 ? VF_VSZ : 1];  /* operation value */
    uint32_t hmul;                      /* raw hash = home + M * hmul */
    uint8_t api;                        /* string API vs object API where both exist */
};
extern struct vf_input vfin;

static const int8_t L_KIND[M] = VF_KIND;      /* 0 free, 1 leading, 2 collision, 3 extension */
static const int16_t L_COUNT[M] = VF_COUNT;
static const int L_HF[M] = VF_HF, L_LINK[M] = VF_LINK;
static const int8_t CH_KEYSLOT[NKK] = VF_CH_KEYSLOT, CH_HOME[NKK] = VF_CH_HOME, CH_LEN[NKK] = VF_CH_LEN;
static const int8_t CH_SLOTS[NKK][M] = VF_CH_SLOTS;
/* sizes that reach an allocation size inside the operation (get/getnext copy out value and name) must be per-query
 * constants: 0 = leave symbolic, otherwise the constant final-block fill / key length of that chain */
#ifndef VF_FILLS
#define VF_FILLS {0}
#endif
#ifndef VF_KLENS
#define VF_KLENS {0}
#endif
static const uint8_t C_FILL[NKK] = VF_FILLS, C_KLEN[NKK] = VF_KLENS;

/* ideal map: parallel plain arrays */
static uint8_t gk[NKK + 1][KMAX], gv[NKK + 1][VMAX];
static size_t gkl[NKK + 1], gvl[NKK + 1];
static uint8_t gpresent[NKK + 1];
static size_t gslots[NKK + 1];  /* slots occupied by that key's value */

static size_t slots_for(size_t vlen) {
    if (vlen <= D) return 1;
    return 1 + (vlen - D + E - 1) / E;
}

/* the user region: ONE heap object, allocated with its struct type so that CBMC propagates the layout constants */
typedef struct { qhasharr_data_t hd; qhasharr_slot_t sl[M]; } vf_region_t;
static qhasharr_slot_t *SL(void *mem) { return (qhasharr_slot_t *)((char *)mem + sizeof(qhasharr_data_t)); }

static void build_image(void *mem) {
    qhasharr_data_t *hd = mem;
    qhasharr_slot_t *sl = SL(mem);
    hd->maxslots = M;
    hd->usedslots = VF_USED;
    hd->num = NK;
    for (int i = 0; i < M; i++) {
        sl[i].count = L_COUNT[i];
        if (L_KIND[i] != 0) { sl[i].hash = (uint32_t)L_HF[i]; sl[i].link = L_LINK[i]; }
        /* everything else in a free slot, and all unused bytes, stay arbitrary (left-over garbage) */
    }
    for (int c = 0; c < NK; c++) {
        if (C_KLEN[c]) vfin.klen[c] = C_KLEN[c];
#ifdef VF_KEYTAG
        /* reduction used by the GET/WALK queries only: stored key c is the constant key (0x40+c, '1', '2') cut to its length, so the
         * outcome of the key comparison (and with it the slot index handed to the copy-out code) is decided during
         * symbolic execution; keys sharing prefixes are covered by the PUT/REMOVE queries, which run the same get_idx() */
        vfin.kb[c][0] = (uint8_t)(0x40 + c);
        vfin.kb[c][1] = 0x31; vfin.kb[c][2] = 0x32; /* remaining key bytes constant too (get/walk queries vary the VALUE path) */
#endif
        VF_ASSUME(vfin.klen[c] >= 1 && vfin.klen[c] <= KMAX);
        gkl[c] = vfin.klen[c];
        for (int b = 0; b < KMAX; b++) gk[c][b] = b < vfin.klen[c] ? vfin.kb[c][b] : 0;
        gpresent[c] = 1;
        gslots[c] = (size_t)CH_LEN[c];
        qhasharr_slot_t *ks = &sl[CH_KEYSLOT[c]];
        for (int b = 0; b < NS; b++) if (b < vfin.klen[c]) ks->data.pair.name[b] = vfin.kb[c][b];
        ks->data.pair.namesize = vfin.klen[c];
        uint8_t md[16];
        vf_md5_of(gk[c], gkl[c], md);
        for (int b = 0; b < 16; b++) ks->data.pair.namemd5[b] = md[b];
        /* value: non-final blocks are full, the final block holds 1..capacity bytes */
        size_t off = 0;
        for (int p = 0; p < M; p++) {
            if (p >= CH_LEN[c]) continue;
            qhasharr_slot_t *s = &sl[CH_SLOTS[c][p]];
            size_t cap = p == 0 ? D : E;
            size_t fill = cap;
            if (p == CH_LEN[c] - 1) {
                if (C_FILL[c]) vfin.lastfill[c] = C_FILL[c] == 255 ? (uint8_t)cap : C_FILL[c];
                VF_ASSUME(vfin.lastfill[c] >= 1 && vfin.lastfill[c] <= cap);
                fill = vfin.lastfill[c];
            }
            s->datasize = (uint8_t)fill;
            for (size_t b = 0; b < (size_t)E; b++)
                if (b < fill) {
                    if (p == 0) s->data.pair.data[b < D ? b : 0] = vfin.vb[c][off + b];
                    else s->data.ext.data[b] = vfin.vb[c][off + b];
                    gv[c][off + b] = vfin.vb[c][off + b];
                }
            off += fill;
        }
        gvl[c] = off;
    }
    /* stored keys are pairwise distinct */
    for (int a = 0; a < NK; a++)
        for (int b = a + 1; b < NK; b++)
            VF_ASSUME(!(gkl[a] == gkl[b] && gk[a][0] == gk[b][0] && gk[a][1] == gk[b][1] && gk[a][2] == gk[b][2]));
}

/* ---------- independent image checker / reader (C07 well-formedness, C06 contents) ---------- */
static bool key_matches_slot(const qhasharr_slot_t *s, const uint8_t *k, size_t kl) {
    if (s->data.pair.namesize != kl) return false;
    for (size_t b = 0; b < NS; b++) if (b < kl && s->data.pair.name[b] != k[b]) return false;
    uint8_t md[16];
    vf_md5_of(k, kl, md);
    for (int b = 0; b < 16; b++) if (s->data.pair.namemd5[b] != md[b]) return false;
    return true;
}
#ifdef VF_DBGIMG
#define IMGFAIL(n) do { VF_ASSERT(0, "C06.dbgimg." #n ": image check failed here"); return false; } while (0)
#else
#define IMGFAIL(n) return false
#endif
static uint8_t rd_val[VMAX + E];
static size_t rd_len, rd_slots;
static uint8_t visited[M];
/* follows the chain of key slot i; false if malformed */
static bool read_chain(void *mem, int i) {
    qhasharr_slot_t *sl = SL(mem);
    int cur = i, prev = -1;
    rd_len = 0; rd_slots = 0;
    for (int step = 0; step < M + 1; step++) {
        if (cur < 0 || cur >= M) IMGFAIL(101);
        if (visited[cur]) IMGFAIL(102);               /* every occupied slot belongs to exactly one key */
        visited[cur] = 1;
        qhasharr_slot_t *s = &sl[cur];
        size_t cap = step == 0 ? D : E;
        if (step > 0) {
            if (s->count != -2) IMGFAIL(103);          /* continuation must be an extension block */
            if ((int)s->hash != prev) IMGFAIL(104);    /* back-link */
        }
        if (s->datasize < 1 || s->datasize > cap) IMGFAIL(105);
        if (s->link != -1 && s->datasize != cap) IMGFAIL(106); /* non-final blocks are full */
        /* non-final blocks are full (checked above), so block `step` starts at a fixed offset */
        size_t off = step == 0 ? 0 : (size_t)D + (size_t)(step - 1) * E;
        if (rd_len != off) IMGFAIL(199);
        for (size_t b = 0; b < (size_t)E; b++)
            if (b < s->datasize) rd_val[off + b] = step == 0 ? s->data.pair.data[b < D ? b : 0] : s->data.ext.data[b];
        rd_len += s->datasize;
        rd_slots++;
        if (s->link == -1) return true;
        prev = cur; cur = s->link;
    }
    IMGFAIL(107); /* chain not terminated within M blocks */
}
/* image is well-formed AND represents exactly the ideal map g* */
static bool image_ok(void *mem, bool check_contents) {
    qhasharr_data_t *hd = mem;
    qhasharr_slot_t *sl = SL(mem);
    if (hd->maxslots != M) IMGFAIL(201);
    for (int i = 0; i < M; i++) visited[i] = 0;
    int nkeys = 0, used = 0;
    uint8_t found[NKK + 1];
    for (int j = 0; j < NKK + 1; j++) found[j] = 0;
    for (int i = 0; i < M; i++) {
        short c = sl[i].count;
        if (c == 0 || c == -2) continue;
        if (c > 0) {
            if ((int)sl[i].hash != i) IMGFAIL(202);             /* leading slot sits in its home */
            int n = 0;
            for (int j = 0; j < M; j++)
                if ((sl[j].count > 0 || sl[j].count == -1) && (int)sl[j].hash == i) n++;
            if (n != c) IMGFAIL(203);                           /* collision count matches */
        } else if (c == -1) {
            int h = (int)sl[i].hash;
            if (h < 0 || h >= M || h == i || sl[h].count <= 0) IMGFAIL(204); /* collision key's home is a leading slot */
        } else IMGFAIL(205);
        nkeys++;
        if (!read_chain(mem, i)) IMGFAIL(206);
        used += (int)rd_slots;
        if (check_contents) {
            int hit = -1;
            for (int j = 0; j < NKK + 1; j++)
                if (gpresent[j] && key_matches_slot(&sl[i], gk[j], gkl[j])) { if (hit >= 0) IMGFAIL(207); hit = j; }
            if (hit < 0 || found[hit]) IMGFAIL(208);            /* a stored key that the ideal map does not have / duplicate */
            found[hit] = 1;
            if (rd_len != gvl[hit]) IMGFAIL(209);
            for (size_t b = 0; b < VMAX; b++) if (b < rd_len && rd_val[b] != gv[hit][b]) IMGFAIL(210);
            /* the home recorded for the key */
            (void)0;
        }
    }
    for (int i = 0; i < M; i++)
        if (sl[i].count == -2 && !visited[i]) IMGFAIL(211);    /* orphaned extension block */
    if (check_contents)
        for (int j = 0; j < NKK + 1; j++) if (gpresent[j] && !found[j]) IMGFAIL(212); /* a key went missing */
    if (hd->num != nkeys || hd->usedslots != used) IMGFAIL(213); /* header counters match the slot contents */
    return true;
}

static uint8_t *heap_copy(const uint8_t *src, size_t n) {
    uint8_t *b = vf_malloc(n > 0 ? n : 1); /* harness-side allocation: exact size, not subject to the copy-out bound */
    VF_ASSUME(b != NULL);
    for (size_t i = 0; i < n; i++) b[i] = src[i];
    return b;
}

void vf_harness(void) {
    const size_t memsize = sizeof(qhasharr_data_t) + M * sizeof(qhasharr_slot_t);
    const long live_base = vf_live_blocks;
#if VF_OP == OP_CTOR
    {
#ifndef VF_MEMSIZE
#define VF_MEMSIZE (sizeof(qhasharr_data_t) + M * sizeof(qhasharr_slot_t))
#endif
        void *mem = malloc(VF_MEMSIZE > 0 ? VF_MEMSIZE : 1);
        VF_ASSUME(mem != NULL);
        qhasharr_t *t = qhasharr(mem, VF_MEMSIZE);
        long want = ((long)VF_MEMSIZE - (long)sizeof(qhasharr_data_t)) / (long)sizeof(qhasharr_slot_t);
        if (t == NULL) {
            VF_ASSERT(want < 1 || VF_MEMSIZE <= sizeof(qhasharr_t), "C07.ctor.reject: the constructor refuses only regions too small for one slot");
            VF_COVER("ctor-rejected");
        } else {
            int mx = -1, us = -1;
            VF_ASSERT(t->size(t, &mx, &us) == 0 && mx == want && us == 0, "C07.ctor.counts: a new table is empty and its capacity is (memsize - header) / slot size");
            qhasharr_slot_t *sl = SL(mem);
            for (long i = 0; i < M + 1; i++) if (i < want) VF_ASSERT(sl[i].count == 0, "C07.ctor.zero: every slot of a new table is free");
            t->free(t);
            VF_COVER("ctor-ok");
        }
        free(mem);
        VF_ASSERT(vf_live_blocks == live_base, "C11.hasharr.leak: free() releases the handle; the region stays with the caller");
        VF_REACH("end");
        return;
    }
#else
    VF_ASSERT(memsize == sizeof(vf_region_t), "C07.harness.layout: region type has exactly header + M slots");
    vf_region_t *mem_t = malloc(sizeof(vf_region_t));
    VF_ASSUME(mem_t != NULL);
    void *mem = mem_t;
    build_image(mem);
#ifdef VF_WITNESS_WF
    VF_ASSERT(image_ok(mem, true), "C07.pre.wf: the generated pre-state passes the independent checker (harness self-check)");
#endif
    qhasharr_t *t = qhasharr(mem, 0); /* attach to the existing image */
    VF_ASSUME(t != NULL);

    /* operation key */
    uint8_t opk[KMAX]; size_t opkl;
#if VF_KCLASS >= 0
    opkl = gkl[VF_KCLASS];
    for (int b = 0; b < KMAX; b++) opk[b] = gk[VF_KCLASS][b];
#else
#ifdef VF_OPKLEN
    vfin.opklen = VF_OPKLEN;
#endif
#ifdef VF_KEYTAG
    vfin.opk[0] = (uint8_t)(0x40 + NKK + 1); vfin.opk[1] = 0x31; vfin.opk[2] = 0x32;
#endif
    VF_ASSUME(vfin.opklen >= 1 && vfin.opklen <= KMAX);
    opkl = vfin.opklen;
    for (int b = 0; b < KMAX; b++) opk[b] = b < vfin.opklen ? vfin.opk[b] : 0;
    for (int c = 0; c < NK; c++)
        VF_ASSUME(!(gkl[c] == opkl && gk[c][0] == opk[0] && gk[c][1] == opk[1] && gk[c][2] == opk[2]));
#endif
    uint8_t *kb = opkl == 1 ? heap_copy(opk, 1) : opkl == 2 ? heap_copy(opk, 2) : heap_copy(opk, 3); /* exactly sized */
    vf_opk_ptr = kb; vf_opk_len = opkl;
    /* raw hash: a per-query constant congruent to the home slot (a symbolic one makes every slot index symbolic) */
#ifndef VF_HMUL
#define VF_HMUL 0
#endif
    vf_hash_raw = (uint32_t)VF_OPHOME + (uint32_t)M * (uint32_t)VF_HMUL;
    errno = 0;
    const int used0 = VF_USED;
    (void)used0;

#if VF_OP == OP_PUT
    {
        uint8_t *vb = heap_copy(vfin.v, VF_VSZ);
        bool ok = t->put_by_obj(t, kb, opkl, vb, VF_VSZ);
        int err = errno;
        /* C12: caller buffers are scribbled and released before anything is checked */
        for (size_t i = 0; i < VF_VSZ; i++) vb[i] = (uint8_t)~vb[i];
        free(vb);
        for (size_t i = 0; i < KMAX; i++) if (i < opkl) kb[i] = (uint8_t)~kb[i];
        free(kb);
        kb = NULL;
        size_t need = slots_for(VF_VSZ);
        size_t freed = VF_KCLASS >= 0 ? gslots[VF_KCLASS >= 0 ? VF_KCLASS : 0] : 0;
        bool full = used0 >= M;
        bool fits = !full && need <= (size_t)(M - used0) + freed;
        VF_ASSERT(ok == fits, "C06.put.accept: put succeeds exactly when a slot is free and the value fits into the free slots plus those released by the value it replaces");
        if (!ok) VF_ASSERT(err == ENOBUFS, "C06.put.enobufs: a put that does not fit fails with an out-of-space error");
        int j = VF_KCLASS >= 0 ? VF_KCLASS : NKK;
        if (ok) {
            gpresent[j] = 1; gkl[j] = opkl;
            for (int b = 0; b < KMAX; b++) gk[j][b] = opk[b];
            for (size_t b = 0; b < VF_VSZ; b++) gv[j][b] = vfin.v[b];
            gvl[j] = VF_VSZ; gslots[j] = need;
            VF_COVER("put-ok");
        } else if (VF_KCLASS >= 0 && !full) {
            gpresent[j] = 0; /* replaced key: removed first, then the new value did not fit => absent */
            VF_COVER("put-failed-key-absent");
        } else {
            VF_COVER("put-failed-unchanged");
        }
        if (ok) VF_ASSERT(image_ok(mem, true), FP "put.effect: after a successful put the table holds exactly the ideal map; counters and image are well-formed");
        else VF_ASSERT(image_ok(mem, true), FP "put.failed: a failed put never alters another key and leaves its own key unchanged or absent; image stays well-formed");
    }
#elif VF_OP == OP_GET
    {
        size_t sz = 777;
        void *p = (vfin.api & 1) ? t->get_by_obj(t, kb, opkl, NULL) : t->get_by_obj(t, kb, opkl, &sz);
        if (VF_KCLASS >= 0) {
            int j = VF_KCLASS >= 0 ? VF_KCLASS : 0;
            VF_ASSERT(p != NULL, "C06.get.present: get of a stored key returns its value");
            if (p) {
                if (!(vfin.api & 1)) VF_ASSERT(sz == gvl[j], "C06.get.size: get reports the exact value length");
                for (size_t b = 0; b < VMAX; b++) if (b < gvl[j]) VF_ASSERT(((uint8_t *)p)[b] == gv[j][b], "C06.get.value: get returns the bytes last put under that key");
                VF_ASSERT(!VF_SAME_OBJECT(p, mem), "C12.hasharr.get.copy: get returns an independent allocation");
            }
        } else {
            VF_ASSERT(p == NULL && errno == ENOENT, "C06.get.absent: get of a key that is not stored reports not-found");
        }
        VF_ASSERT(image_ok(mem, true), FP "get.pure: get does not change the image");
        if (p) {
            /* C07: a second handle on a byte-for-byte copy at another address sees the same */
            vf_region_t *mem2_t = malloc(sizeof(vf_region_t));
            VF_ASSUME(mem2_t != NULL);
            void *mem2 = mem2_t;
            *mem2_t = *mem_t; /* byte-for-byte copy of the whole region to a different address */
            qhasharr_t *t2 = qhasharr(mem2, 0);
            VF_ASSUME(t2 != NULL);
            size_t sz2 = 0;
            void *p2 = t2->get_by_obj(t2, kb, opkl, &sz2);
            VF_ASSERT(p2 != NULL && sz2 == gvl[VF_KCLASS >= 0 ? VF_KCLASS : 0], "C07.reloc.get: a handle attached to a copy of the region at a different address observes the same value");
            int n1, m1, u1, n2, m2, u2;
            n1 = t->size(t, &m1, &u1); n2 = t2->size(t2, &m2, &u2);
            VF_ASSERT(n1 == n2 && m1 == m2 && u1 == u2, "C07.reloc.counters: the copy reports the same counters");
            VF_ASSERT(image_ok(mem2, true), "C07.reloc.image: the copied image is well-formed and holds the same map");
            free(p2); t2->free(t2); free(mem2);
            /* the returned copy stays intact when the region is wiped */
            uint8_t keep[VMAX];
            for (size_t b = 0; b < VMAX; b++) keep[b] = b < gvl[VF_KCLASS >= 0 ? VF_KCLASS : 0] ? ((uint8_t *)p)[b] : 0;
            memset(mem, 0xEE, memsize);
            for (size_t b = 0; b < VMAX; b++) if (b < gvl[VF_KCLASS >= 0 ? VF_KCLASS : 0]) VF_ASSERT(((uint8_t *)p)[b] == keep[b], "C12.hasharr.copy.survives: a returned copy stays intact after the table memory is overwritten");
            free(p);
            build_image(mem); /* restore for the epilogue */
        }
    }
#elif VF_OP == OP_REMOVE
    {
        bool ok = t->remove_by_obj(t, (const char *)kb, opkl);
        VF_ASSERT(ok == (VF_KCLASS >= 0), "C06.remove.ret: remove succeeds exactly for stored keys");
        if (ok && VF_KCLASS >= 0) gpresent[VF_KCLASS >= 0 ? VF_KCLASS : 0] = 0;
        VF_ASSERT(image_ok(mem, true), FP "remove.effect: remove deletes only that key, releases exactly its slots, and leaves a well-formed image");
    }
#elif VF_OP == OP_REMOVE_IDX
    {
#ifndef VF_IDX
#define VF_IDX 0
#endif
        bool ok = t->remove_by_idx(t, VF_IDX);
        bool iskey = L_KIND[VF_IDX] == 1 || L_KIND[VF_IDX] == 2;
        VF_ASSERT(ok == iskey, "C06.removeidx.ret: remove-by-index succeeds exactly when the index holds a key");
        if (ok) for (int c = 0; c < NK; c++) if (CH_KEYSLOT[c] == VF_IDX) gpresent[c] = 0;
        VF_ASSERT(image_ok(mem, true), FP "removeidx.effect: remove-by-index deletes only that key and leaves a well-formed image");
    }
#elif VF_OP == OP_WALK
    {
        int idx = 0;
        uint8_t seen[NKK];
        for (int c = 0; c < NKK; c++) seen[c] = 0;
        int cnt = 0;
        qhasharr_obj_t o;
        for (int step = 0; step < NK + 1; step++) {
            if (!t->getnext(t, &o, &idx)) break;
            int hit = -1;
            for (int c = 0; c < NK; c++) {
                size_t sl_ = gkl[c] > NS ? NS : gkl[c];
                bool same = o.namesize == sl_;
                for (size_t b = 0; b < NS; b++) if (b < sl_ && ((uint8_t *)o.name)[b] != gk[c][b]) same = false;
                if (same && o.datasize == gvl[c]) {
                    bool veq = true;
                    for (size_t b = 0; b < VMAX; b++) if (b < gvl[c] && ((uint8_t *)o.data)[b] != gv[c][b]) veq = false;
                    if (veq && !seen[c] && hit < 0) hit = c;
                }
            }
            VF_ASSERT(hit >= 0, "C06.walk.entry: the walk returns stored keys (in-slot part of the name) with their values, none twice");
            VF_ASSERT(((uint8_t *)o.name)[o.namesize] == 0, "C06.walk.nameterm: returned names are NUL-terminated");
            if (hit >= 0) seen[hit] = 1;
            VF_ASSERT(!VF_SAME_OBJECT(o.name, mem) && !VF_SAME_OBJECT(o.data, mem), "C12.hasharr.walk.copy: the walk returns independent allocations");
            free(o.name); free(o.data);
            cnt++;
        }
        VF_ASSERT(cnt == NK, "C06.walk.count: the walk returns every stored key exactly once and then ends");
        VF_ASSERT(image_ok(mem, true), FP "walk.pure: walking does not change the image");
    }
#elif VF_OP == OP_CLEAR
    {
        t->clear(t);
        for (int c = 0; c < NKK + 1; c++) gpresent[c] = 0;
        VF_ASSERT(image_ok(mem, true), FP "clear: clear empties the table and leaves a well-formed image");
        int mx, us;
        VF_ASSERT(t->size(t, &mx, &us) == 0 && mx == M && us == 0, "C06.clear.counters: counters are zero after clear");
    }
#elif VF_OP == OP_SIZE
    {
        int mx = -1, us = -1;
        int n = t->size(t, &mx, &us);
        VF_ASSERT(n == NK && mx == M && us == VF_USED, "C06.size: size reports key count, capacity and used slots exactly");
    }
#endif
    {
        int mx = -1, us = -1, n = t->size(t, &mx, &us);
        int wantn = 0; size_t wantu = 0;
        for (int j = 0; j < NKK + 1; j++) if (gpresent[j]) { wantn++; wantu += gslots[j]; }
        VF_ASSERT(n == wantn && mx == M && us == (int)wantu, FP "counters: reported key count and used-slot count equal the stored keys and the slots their values occupy");
    }
    if (kb) free(kb);
    t->free(t);
    free(mem);
    VF_ASSERT(vf_live_blocks == live_base, "C11.hasharr.leak: the table allocates nothing it does not release");
    VF_REACH("end");
#endif
}
#include "vf_main.h"
