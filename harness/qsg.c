/* Queue, stack and grow buffer (src/containers/qqueue.c, qstack.c, qgrow.c - thin wrappers over the real qlist.c,
 * which is included too): one API step from an arbitrary valid state, plus one push-push-drain history.
 *
 * VF_KIND 1 queue, 2 stack, 3 grow buffer.  Pre-state: the real constructor, then the underlying list is linked by hand
 * exactly as in list.c (VF_N nodes, sizes constant per query via VF_SIZES, bytes and max symbolic).  Every such state is
 * reachable: queue: VF_N x push; stack: VF_N x push in reverse order; grow: VF_N x add; then setsize(max) where offered
 * (the grow buffer has no setsize: its max is always 0).
 * The ideal sequence (ref/listref.h) has position 0 = the element the next pop()/get() returns:
 *   queue push = append (pop returns the oldest: FIFO), stack push = insert at 0 (pop returns the newest: LIFO),
 *   grow add = append (toarray/tostring = concatenation in order of addition).
 */
#include "vf.h"
#include "stubs.h"
#ifndef VF_KIND
#define VF_KIND 1
#endif
#if VF_KIND == 1
#define VF_CN "queue"
#elif VF_KIND == 2
#define VF_CN "stack"
#else
#define VF_CN "grow"
#endif
#include "listmem.h" /* byte-exact memcpy model (see there) */
#include "containers/qlist.c"
#if VF_KIND == 1
#include "containers/qqueue.c"
typedef qqueue_t cont_t;
#define NEWC(o) qqueue(o)
#define PUSH_POS(n) (n)
#elif VF_KIND == 2
#include "containers/qstack.c"
typedef qstack_t cont_t;
#define NEWC(o) qstack(o)
#define PUSH_POS(n) ((size_t)0)
#else
#include "containers/qgrow.c"
typedef qgrow_t cont_t;
#define NEWC(o) qgrow(o)
#define PUSH_POS(n) (n)
#endif
#ifndef VF_SLEN
#define VF_SLEN 1
#endif
#include "listref.h"

#define OP_PUSH 1     /* queue/stack push, grow add */
#define OP_PUSHSTR 2  /* queue/stack pushstr, grow addstr */
#define OP_PUSHINT 3
#define OP_POP 4
#define OP_POPSTR 5
#define OP_POPINT 6
#define OP_POPAT 7
#define OP_GET 8
#define OP_GETSTR 9
#define OP_GETINT 10
#define OP_GETAT 11
#define OP_SIZE 12
#define OP_CLEAR 13
#define OP_SETSIZE 14
#define OP_CTOR 15
#define OP_ORDER 16   /* push x, push y, drain: FIFO / LIFO / concatenation stated literally */
#define OP_PUSHINV 17 /* NULL / zero-size arguments */
#define OP_TOARRAY 18
#define OP_TOSTRING 19

struct vf_input {
    VF_LIST_INPUT_FIELDS
    int index;
    uint8_t newmem, wantsize, inval;
    uint8_t val[VF_ESZ], val2[VF_ESZ];
    int64_t num;
    uint64_t newmax;
    unsigned failmask;
    int8_t failfrom;
};
extern struct vf_input vfin;

#ifdef VF_ALLOCFAIL
#define VF_AF 1
#define FP "C15." VF_CN "."
#define LEAK "C15." VF_CN ".leak: nothing is leaked under allocation failure: "
#else
#define VF_AF 0
#define FP "C09." VF_CN "."
#define LEAK "C11." VF_CN ".leak: "
#endif
#define CALL(stmt) do { int vf_d_ = vf_lock_depth; vf_alloc_active = VF_AF; stmt; vf_alloc_active = 0; \
        VF_ASSERT(vf_lock_depth == vf_d_, "C14." VF_CN ".lock: the operation returns with the container lock at the depth it had on entry"); } while (0)
#define CHECK_WF(l) VF_ASSERT(vf_wf(l), FP "wf: underlying list well-formed: links consistent, num = node count, datasum = sum of sizes")

/* a NUL-terminated caller string of exactly VF_SLEN characters (no embedded NUL: the length is structure) in an exactly sized block */
static char *vf_caller_str(const uint8_t *src) {
    char *s = (char *)vf_alloc_sized(VF_SLEN + 1);
    for (size_t k = 0; k < VF_SLEN; k++) {
        VF_ASSUME(src[k] != 0);
        s[k] = (char)src[k];
    }
    s[VF_SLEN] = '\0';
    return s;
}

void vf_harness(void) {
    int opts = 0;
#ifdef VF_TS
    opts |= QLIST_THREADSAFE; /* == QQUEUE_THREADSAFE == QSTACK_THREADSAFE == QGROW_THREADSAFE */
#endif
#ifdef VF_FAILMASK
    vfin.failmask = VF_FAILMASK;
#endif
#ifdef VF_FAILFROM
    vfin.failfrom = VF_FAILFROM;
#else
    vfin.failfrom = -1;
#endif

#if VF_OP == OP_CTOR
    vf_failmask = vfin.failmask; vf_fail_from = vfin.failfrom;
    cont_t *c;
    errno = 0;
    CALL(c = NEWC(opts));
    if (c == NULL) {
        VF_ASSERT(vf_alloc_failed, FP "ctor.ok: constructor succeeds when memory is available");
        VF_ASSERT(errno == ENOMEM, FP "ctor.errno: a failed constructor reports ENOMEM");
        VF_ASSERT(vf_live_blocks == 0, "C15." VF_CN ".ctor.leak: a failed constructor releases everything it allocated");
        VF_COVER("ctor-failed");
    } else {
        gn = 0; gmax = 0;
        qlist_t *l = c->list;
        VF_ASSERT(l != NULL && l->first == NULL && l->last == NULL && l->num == 0 && l->datasum == 0 && l->max == 0, FP "ctor.state: new container is empty and unlimited");
        CHECK_WF(l);
        VF_ASSERT(vf_matches(l) && c->size(c) == 0, FP "ctor.empty: size() of a new container is 0");
        uint8_t *b = vf_caller_buf(vfin.val, VF_ESZ);
        bool ok;
#if VF_KIND == 3
        CALL(ok = c->add(c, b, VF_ESZ));
#else
        CALL(ok = c->push(c, b, VF_ESZ));
#endif
        vf_scribble_free(l, b, VF_ESZ);
        if (ok) g_insert(0, vfin.val, VF_ESZ);
        CHECK_WF(l);
        VF_ASSERT((ok || vf_alloc_failed) && vf_matches(l), FP "ctor.usable: first push/add on a new container works");
        CALL(c->free(c));
        VF_ASSERT(vf_live_blocks == 0, LEAK "after free() every block the container allocated has been released");
    }
    VF_REACH("end");
    return;
#else
    /* ---------- pre-state ---------- */
    const long live_base = vf_live_blocks;
    cont_t *c = NEWC(opts);
    VF_ASSUME(c != NULL);
    qlist_t *l = c->list;
#if VF_KIND == 3
    vfin.max = 0; /* the grow buffer offers no setsize(): a limit is not a reachable state */
#endif
    vf_build(l, vfin.sz, vfin.data, vfin.max);
    VF_ASSERT(vf_wf(l) && vf_matches(l), FP "pre: the constructed pre-state is well-formed and equals the ideal sequence");
    const size_t n0 = gn;
    void *ret_copy = NULL;
    size_t ret_size = 0;
    const int depth0 = vf_lock_depth;
    vf_failmask = vfin.failmask; vf_fail_from = vfin.failfrom;
    errno = 0;

#if VF_OP == OP_PUSH
    {
        uint8_t *b = vf_caller_buf(vfin.val, VF_ESZ);
        bool ok;
#if VF_KIND == 3
        CALL(ok = c->add(c, b, VF_ESZ));
#else
        CALL(ok = c->push(c, b, VF_ESZ));
#endif
        const int e = errno;
        vf_scribble_free(l, b, VF_ESZ);
        const bool full = gmax > 0 && n0 >= gmax;
        if (ok) {
            VF_ASSERT(!full, FP "push.max: push into a container that reached its configured maximum is refused");
            g_insert(PUSH_POS(n0), vfin.val, VF_ESZ);
        } else {
            VF_ASSERT(full || vf_alloc_failed, FP "push.accept: push below the maximum succeeds");
            if (vf_alloc_failed) VF_ASSERT(e == ENOMEM, FP "push.errno.nomem: allocation failure is reported as ENOMEM");
            else VF_ASSERT(e == ENOBUFS, FP "push.errno.full: a full container reports ENOBUFS");
        }
        CHECK_WF(l);
        VF_ASSERT(vf_matches(l), FP "push.effect: queue push/grow add appends behind the newest, stack push goes on top; a refused push changes nothing");
    }
#elif VF_OP == OP_PUSHSTR
    {
        char *s = vf_caller_str(vfin.val);
        bool ok;
#if VF_KIND == 3
        CALL(ok = c->addstr(c, s));
        const size_t esz = VF_SLEN;     /* grow buffer stores the characters without the terminator */
#else
        CALL(ok = c->pushstr(c, s));
        const size_t esz = VF_SLEN + 1; /* queue/stack store the string with its terminator */
#endif
        const int e = errno;
        uint8_t want[VF_SLEN + 1];
        for (size_t k = 0; k < VF_SLEN + 1; k++) want[k] = (uint8_t)s[k];
        vf_scribble_free(l, (uint8_t *)s, VF_SLEN + 1);
        const bool full = gmax > 0 && n0 >= gmax;
        if (ok) {
            VF_ASSERT(!full, FP "pushstr.max: push into a container that reached its configured maximum is refused");
            VF_ASSERT(esz > 0, FP "pushstr.empty: an empty piece is not stored");
            if (esz > 0) g_insert(PUSH_POS(n0), want, esz);
        } else {
            VF_ASSERT(full || vf_alloc_failed || esz == 0, FP "pushstr.accept: pushing a string below the maximum succeeds");
            if (vf_alloc_failed) VF_ASSERT(e == ENOMEM, FP "pushstr.errno.nomem: allocation failure is reported as ENOMEM");
            else if (esz == 0) VF_ASSERT(e == EINVAL, FP "pushstr.errno.inval: a zero-length piece reports EINVAL");
            else VF_ASSERT(e == ENOBUFS, FP "pushstr.errno.full: a full container reports ENOBUFS");
        }
        CHECK_WF(l);
        VF_ASSERT(vf_matches(l), FP "pushstr.effect: the string is stored byte for byte at the push position; a refused push changes nothing");
    }
#elif VF_OP == OP_PUSHINT && VF_KIND != 3
    {
        bool ok;
        CALL(ok = c->pushint(c, vfin.num));
        const int e = errno;
        uint8_t want[8];
        const int64_t v = vfin.num;
        for (size_t k = 0; k < 8; k++) want[k] = ((const uint8_t *)&v)[k];
        const bool full = gmax > 0 && n0 >= gmax;
        if (ok) {
            VF_ASSERT(!full, FP "pushint.max: push into a container that reached its configured maximum is refused");
            g_insert(PUSH_POS(n0), want, 8);
        } else {
            VF_ASSERT(full || vf_alloc_failed, FP "pushint.accept: pushing an integer below the maximum succeeds");
            if (vf_alloc_failed) VF_ASSERT(e == ENOMEM, FP "pushint.errno.nomem: allocation failure is reported as ENOMEM");
            else VF_ASSERT(e == ENOBUFS, FP "pushint.errno.full: a full container reports ENOBUFS");
        }
        CHECK_WF(l);
        VF_ASSERT(vf_matches(l), FP "pushint.effect: the integer is stored as an 8-byte element at the push position; a refused push changes nothing");
    }
#elif VF_OP == OP_PUSHINV
    {
        uint8_t *b = vf_caller_buf(vfin.val, VF_ESZ);
        bool ok;
#if VF_KIND == 3
#ifdef VF_GROW_NULLSTR
        /* opt-in probe, not part of cases(): qgrow_addstr(NULL).  The documentation lists EINVAL for invalid arguments and the
         * sibling qqueue_pushstr/qstack_pushstr check for NULL, but whether NULL is a "valid call" is the coordinator's decision. */
        CALL(ok = c->addstr(c, NULL));
#else
        if (vfin.inval & 1) CALL(ok = c->add(c, NULL, VF_ESZ));
        else CALL(ok = c->add(c, b, 0));
#endif
#else
        if ((vfin.inval & 3) == 1) CALL(ok = c->push(c, NULL, VF_ESZ));
        else if ((vfin.inval & 3) == 2) CALL(ok = c->pushstr(c, NULL));
        else CALL(ok = c->push(c, b, 0));
#endif
        VF_ASSERT(!ok && errno == EINVAL, FP "pushinv.refused: NULL data / NULL string / zero size is refused with EINVAL");
        free(b);
        CHECK_WF(l);
        VF_ASSERT(vf_matches(l), FP "pushinv.unchanged: a refused push leaves the container unchanged");
    }
#elif (VF_OP == OP_POP || VF_OP == OP_POPAT || VF_OP == OP_GET || VF_OP == OP_GETAT) && VF_KIND != 3
    {
        size_t sz = 12345;
        size_t *szp = (vfin.wantsize & 1) ? &sz : NULL;
        void *p;
#if VF_OP == OP_POP
        const bool removing = true, nm = true;
        const long pos = 0;
        CALL(p = c->pop(c, szp));
#elif VF_OP == OP_POPAT
        const bool removing = true, nm = true;
        const long pos = g_pos_access(vfin.index, n0);
        CALL(p = c->popat(c, vfin.index, szp));
#elif VF_OP == OP_GET
        const bool removing = false, nm = vfin.newmem & 1;
        const long pos = 0;
        CALL(p = c->get(c, szp, nm));
#else
        const bool removing = false, nm = vfin.newmem & 1;
        const long pos = g_pos_access(vfin.index, n0);
        CALL(p = c->getat(c, vfin.index, szp, nm));
#endif
        const int e = errno;
        const bool valid = pos >= 0 && pos < (long)n0;
        if (p != NULL) {
            VF_ASSERT(valid, FP "take.range: pop/get on an empty container or at an out-of-range index is refused");
            if (valid) {
                VF_ASSERT(szp == NULL || sz == gs[pos], FP "take.size: pop/get reports the exact element size");
                VF_ASSERT(g_elem_eq(p, (size_t)pos), FP "take.value: pop()/get() return the oldest element of a queue (FIFO), the newest of a stack (LIFO); *at() the element at that position");
                if (nm) {
                    VF_ASSERT(!vf_is_internal(l, p), "C12." VF_CN ".take.copy: pop / get with the copy flag return an independent allocation");
                    ret_copy = p; ret_size = gs[pos];
                } else {
                    VF_ASSERT(p == vf_ndata[pos < VF_N ? pos : 0], FP "take.nocopy: get without the copy flag returns the stored block itself");
                }
                if (removing) g_remove((size_t)pos);
            }
        } else {
            VF_ASSERT(!valid || vf_alloc_failed, FP "take.accept: pop/get of an existing element succeeds");
            if (vf_alloc_failed) VF_ASSERT(e == ENOMEM, FP "take.errno.nomem: allocation failure is reported as ENOMEM");
            else VF_ASSERT(e == ERANGE || e == ENOENT, FP "take.errno.range: empty container / out-of-range index reports ERANGE or ENOENT");
        }
        CHECK_WF(l);
        VF_ASSERT(vf_matches(l), FP "take.effect: pop removes exactly the returned element, get removes nothing; a refused call changes nothing");
    }
#elif (VF_OP == OP_POPSTR || VF_OP == OP_GETSTR) && VF_KIND != 3
    {
        char *p;
#if VF_OP == OP_POPSTR
        const bool removing = true;
        CALL(p = c->popstr(c));
#else
        const bool removing = false;
        CALL(p = c->getstr(c));
#endif
        const int e = errno;
        if (p != NULL) {
            VF_ASSERT(n0 > 0, FP "takestr.range: popstr/getstr on an empty container is refused");
            if (n0 > 0) {
                /* documented: the element is returned as a string; the last byte is forced to NUL ("just to make sure"),
                 * which is the identity for every element that was pushed with pushstr() */
                bool same = true;
                for (size_t k = 0; k < BMAX; k++)
                    if (k + 1 < gs[0] && (uint8_t)p[k] != gb[0][k]) same = false;
                VF_ASSERT(same && p[gs[0] - 1] == '\0', FP "takestr.value: popstr/getstr return the head element's bytes, NUL terminated in its last byte");
                if (gb[0][gs[0] - 1] == 0) VF_ASSERT(g_elem_eq(p, 0), FP "takestr.string: a string pushed with pushstr comes back byte for byte");
                VF_ASSERT(!vf_is_internal(l, p), "C12." VF_CN ".takestr.copy: popstr/getstr return an independent allocation");
                ret_copy = p; ret_size = gs[0] - 1;
                if (removing) g_remove(0);
            }
        } else {
            VF_ASSERT(n0 == 0 || vf_alloc_failed, FP "takestr.accept: popstr/getstr on a non-empty container succeeds");
            if (vf_alloc_failed) VF_ASSERT(e == ENOMEM, FP "takestr.errno.nomem: allocation failure is reported as ENOMEM");
            else VF_ASSERT(e == ERANGE || e == ENOENT, FP "takestr.errno.range: empty container reports ERANGE or ENOENT");
        }
        CHECK_WF(l);
        VF_ASSERT(vf_matches(l), FP "takestr.effect: popstr removes exactly the head element, getstr removes nothing");
    }
#elif (VF_OP == OP_POPINT || VF_OP == OP_GETINT) && VF_KIND != 3
    {
        /* documented precondition: the head element was pushed through pushint(), i.e. it is 8 bytes (driver: VF_SIZES) */
        int64_t r;
#if VF_OP == OP_POPINT
        const bool removing = true;
        CALL(r = c->popint(c));
#else
        const bool removing = false;
        CALL(r = c->getint(c));
#endif
        const int e = errno;
        if (n0 > 0 && !vf_alloc_failed) {
            int64_t want;
            for (size_t k = 0; k < 8; k++) ((uint8_t *)&want)[k] = gb[0][k < BMAX ? k : 0];
            VF_ASSERT(gs[0] == 8, FP "takeint.pre: head element is an integer element");
            VF_ASSERT(r == want, FP "takeint.value: popint/getint return the integer at the head (oldest for a queue, newest for a stack)");
            if (removing) g_remove(0);
        } else {
            VF_ASSERT(r == 0, FP "takeint.none: popint/getint return 0 when there is nothing to return");
            if (vf_alloc_failed) VF_ASSERT(e == ENOMEM, FP "takeint.errno.nomem: allocation failure is reported as ENOMEM");
            else VF_ASSERT(e == ERANGE || e == ENOENT, FP "takeint.errno.range: empty container reports ERANGE or ENOENT");
        }
        CHECK_WF(l);
        VF_ASSERT(vf_matches(l), FP "takeint.effect: popint removes exactly the head element, getint removes nothing; nothing changes on failure");
    }
#elif VF_OP == OP_SIZE
    {
        size_t a;
        CALL(a = c->size(c));
        VF_ASSERT(a == n0, FP "size: size() is the element count");
#if VF_KIND == 3
        size_t b;
        CALL(b = c->datasize(c));
        VF_ASSERT(b == g_datasum(), FP "datasize: datasize() is the total number of bytes added");
#endif
        CHECK_WF(l);
        VF_ASSERT(vf_matches(l), FP "size.pure: size()/datasize() do not modify the container");
    }
#elif VF_OP == OP_CLEAR
    {
        CALL(c->clear(c));
        gn = 0;
        CHECK_WF(l);
        VF_ASSERT(vf_matches(l) && l->first == NULL && l->last == NULL && c->size(c) == 0, FP "clear: clear empties the container");
        uint8_t *b = vf_caller_buf(vfin.val, VF_ESZ);
        bool ok2;
#if VF_KIND == 3
        CALL(ok2 = c->add(c, b, VF_ESZ));
#else
        CALL(ok2 = c->push(c, b, VF_ESZ));
#endif
        vf_scribble_free(l, b, VF_ESZ);
        if (ok2) g_insert(0, vfin.val, VF_ESZ);
        CHECK_WF(l);
        VF_ASSERT((ok2 || vf_alloc_failed) && vf_matches(l), FP "clear.usable: container usable after clear");
    }
#elif VF_OP == OP_SETSIZE && VF_KIND != 3
    {
        size_t old;
        CALL(old = c->setsize(c, (size_t)vfin.newmax));
        VF_ASSERT(old == gmax, FP "setsize.ret: setsize returns the previous limit");
        gmax = (size_t)vfin.newmax;
        CHECK_WF(l);
        VF_ASSERT(vf_matches(l), FP "setsize.keep: setsize changes the limit only, never the elements");
        uint8_t *b = vf_caller_buf(vfin.val, VF_ESZ);
        bool ok2;
        CALL(ok2 = c->push(c, b, VF_ESZ));
        vf_scribble_free(l, b, VF_ESZ);
        const bool full = gmax > 0 && n0 >= gmax;
        VF_ASSERT(ok2 == !full || vf_alloc_failed, FP "setsize.governs: after setsize a push succeeds exactly when size < max or max == 0");
        if (ok2 && !full) g_insert(PUSH_POS(gn), vfin.val, VF_ESZ);
        CHECK_WF(l);
        VF_ASSERT(vf_matches(l), FP "setsize.then.push: contents exact after setsize + push");
    }
#elif VF_OP == OP_ORDER
    {
        /* history: push x, push y, then drain.  queue: pre[0..n-1], x, y (first in, first out);
         * stack: y, x, pre[0..n-1] (last in, first out); grow: toarray = pre ++ x ++ y (order of addition) */
        VF_ASSUME(gmax == 0 || gmax >= n0 + 2);
        uint8_t *bx = vf_caller_buf(vfin.val, VF_ESZ), *by = vf_caller_buf(vfin.val2, VF_ESZ);
        bool ok1, ok2;
#if VF_KIND == 3
        CALL(ok1 = c->add(c, bx, VF_ESZ));
        vf_scribble_free(l, bx, VF_ESZ);
        CALL(ok2 = c->add(c, by, VF_ESZ));
        vf_scribble_free(l, by, VF_ESZ);
        VF_ASSERT(ok1 && ok2, FP "order.accept: both pieces are accepted");
        size_t sz = 0;
        uint8_t *a;
        CALL(a = c->toarray(c, &sz));
        VF_ASSERT(a != NULL && sz == g_datasum() + 2 * VF_ESZ, FP "order.size: flattened size is the sum of all pieces");
        if (a != NULL) {
            size_t off = 0;
            bool same = true;
            for (size_t i = 0; i < VF_N; i++) {
                for (size_t k = 0; k < BMAX; k++)
                    if (k < gs[i] && a[off + k] != gb[i][k]) same = false;
                off += gs[i];
            }
            for (size_t k = 0; k < VF_ESZ; k++)
                if (a[off + k] != vfin.val[k] || a[off + VF_ESZ + k] != vfin.val2[k]) same = false;
            VF_ASSERT(same, FP "order.concat: the grow buffer flattens to its pieces concatenated in order of addition");
            ret_copy = a; ret_size = 0;
        }
        g_insert(gn, vfin.val, VF_ESZ);
        g_insert(gn, vfin.val2, VF_ESZ);
        CHECK_WF(l);
        VF_ASSERT(vf_matches(l), FP "order.state: contents exact after two additions");
#else
        CALL(ok1 = c->push(c, bx, VF_ESZ));
        vf_scribble_free(l, bx, VF_ESZ);
        CALL(ok2 = c->push(c, by, VF_ESZ));
        vf_scribble_free(l, by, VF_ESZ);
        VF_ASSERT(ok1 && ok2, FP "order.accept: both pushes are accepted");
        uint8_t pb[NCAP][BMAX];
        size_t ps[NCAP];
        for (size_t i = 0; i < VF_N; i++) { ps[i] = gs[i]; for (size_t k = 0; k < BMAX; k++) pb[i][k] = gb[i][k]; }
        g_insert(PUSH_POS(gn), vfin.val, VF_ESZ);
        g_insert(PUSH_POS(gn), vfin.val2, VF_ESZ);
        CHECK_WF(l);
        VF_ASSERT(vf_matches(l), FP "order.state: contents exact after two pushes");
        for (size_t j = 0; j < VF_N + 2; j++) {
            size_t sz = 0;
            uint8_t *p;
            CALL(p = c->pop(c, &sz));
            VF_ASSERT(p != NULL, FP "order.drain: every pushed element can be popped");
            if (p == NULL) break;
            /* which element must come out j-th */
#if VF_KIND == 1
            const int src = j < n0 ? 0 : (j == n0 ? 1 : 2); /* 0: pre-state element j, 1: x, 2: y */
            const size_t pi = j;
#else
            const int src = j == 0 ? 2 : (j == 1 ? 1 : 0);
            const size_t pi = j >= 2 ? j - 2 : 0;
#endif
            bool same = true;
            if (src == 0) {
                if (sz != ps[pi < NCAP ? pi : 0]) same = false;
                for (size_t k = 0; k < BMAX; k++)
                    if (k < ps[pi < NCAP ? pi : 0] && p[k] != pb[pi < NCAP ? pi : 0][k]) same = false;
            } else {
                if (sz != VF_ESZ) same = false;
                for (size_t k = 0; k < VF_ESZ; k++)
                    if (p[k] != (src == 1 ? vfin.val[k] : vfin.val2[k])) same = false;
            }
#if VF_KIND == 1
            VF_ASSERT(same, FP "order.fifo: a queue returns elements first-in-first-out");
#else
            VF_ASSERT(same, FP "order.lifo: a stack returns elements last-in-first-out");
#endif
            free(p);
            g_remove(0);
        }
        void *none;
        CALL(none = c->pop(c, NULL));
        VF_ASSERT(none == NULL && c->size(c) == 0, FP "order.empty: after draining, the container is empty");
        CHECK_WF(l);
        VF_ASSERT(vf_matches(l), FP "order.drained: drained container equals the empty sequence");
#endif
    }
#elif VF_OP == OP_TOARRAY && VF_KIND == 3
    {
        size_t sz = 12345;
        size_t *szp = (vfin.wantsize & 1) ? &sz : NULL;
        uint8_t *a;
        CALL(a = c->toarray(c, szp));
        const int e = errno;
        if (a != NULL) {
            VF_ASSERT(n0 > 0, FP "toarray.empty: an empty grow buffer flattens to NULL");
            VF_ASSERT(szp == NULL || sz == g_datasum(), FP "toarray.size: flattening reports the total byte size");
            size_t off = 0;
            bool same = true;
            for (size_t i = 0; i < VF_N; i++) {
                for (size_t k = 0; k < BMAX; k++)
                    if (k < gs[i] && a[off + k] != gb[i][k]) same = false;
                off += gs[i];
            }
            VF_ASSERT(same, FP "toarray.concat: the grow buffer flattens to its pieces concatenated in order of addition");
            VF_ASSERT(!vf_is_internal(l, a), "C12." VF_CN ".toarray.copy: toarray returns an independent allocation");
            ret_copy = a; ret_size = 0;
        } else {
            VF_ASSERT(n0 == 0 || vf_alloc_failed, FP "toarray.ok: flattening a non-empty grow buffer succeeds");
            if (n0 == 0) VF_ASSERT(e == ENOENT && (szp == NULL || sz == 0), FP "toarray.empty.errno: empty grow buffer reports ENOENT and size 0");
            else VF_ASSERT(e == ENOMEM, FP "toarray.errno.nomem: allocation failure is reported as ENOMEM");
        }
        CHECK_WF(l);
        VF_ASSERT(vf_matches(l), FP "toarray.pure: toarray does not modify the grow buffer");
    }
#elif VF_OP == OP_TOSTRING && VF_KIND == 3
    {
        char *s;
        CALL(s = c->tostring(c));
        const int e = errno;
        if (s != NULL) {
            VF_ASSERT(n0 > 0, FP "tostring.empty: an empty grow buffer has no string form (NULL)");
            size_t off = 0;
            bool same = true;
            for (size_t i = 0; i < VF_N; i++) {
                size_t len = gs[i];
                if (gb[i][len - 1] == 0) len--;
                for (size_t k = 0; k < BMAX; k++)
                    if (k < len && (uint8_t)s[off + k] != gb[i][k]) same = false;
                off += len;
            }
            VF_ASSERT(same, FP "tostring.concat: string form is the pieces concatenated in order of addition, each without its one trailing NUL");
            VF_ASSERT(s[off] == '\0', FP "tostring.term: string form is NUL terminated right after the last copied byte");
            VF_ASSERT(!vf_is_internal(l, s), "C12." VF_CN ".tostring.copy: tostring returns an independent allocation");
            ret_copy = s; ret_size = 0;
        } else {
            VF_ASSERT(n0 == 0 || vf_alloc_failed, FP "tostring.ok: string form of a non-empty grow buffer succeeds");
            if (n0 == 0) VF_ASSERT(e == ENOENT, FP "tostring.empty.errno: empty grow buffer reports ENOENT");
            else VF_ASSERT(e == ENOMEM, FP "tostring.errno.nomem: allocation failure is reported as ENOMEM");
        }
        CHECK_WF(l);
        VF_ASSERT(vf_matches(l), FP "tostring.pure: tostring does not modify the grow buffer");
    }
#else
#error "VF_OP not applicable to this VF_KIND"
#endif
    vf_alloc_active = 0;

    /* ---------- cross-cutting post-conditions ---------- */
    VF_ASSERT(vf_lock_depth == depth0, "C14." VF_CN ".lock: the operation returns with the container lock released");
#ifdef VF_ALLOCFAIL
    if (vf_alloc_failed) VF_COVER("alloc-failed");
    VF_ASSERT(vf_wf(l), "C15." VF_CN ".inv: representation invariant holds after allocation failure");
    {
        uint8_t *b = vf_caller_buf(vfin.val2, VF_ESZ);
        bool ok3;
#if VF_KIND == 3
        ok3 = c->add(c, b, VF_ESZ);
#else
        ok3 = c->push(c, b, VF_ESZ);
#endif
        free(b);
        const bool full = gmax > 0 && gn >= gmax;
        VF_ASSERT(ok3 == !full, "C15." VF_CN ".after.push: after an allocation failure a later push behaves normally");
        if (ok3 && !full) g_insert(PUSH_POS(gn), vfin.val2, VF_ESZ);
        VF_ASSERT(vf_wf(l) && vf_matches(l), "C15." VF_CN ".after.state: after an allocation failure later operations see exact contents");
    }
#endif

    uint8_t keep[BMAX];
    for (size_t k = 0; k < BMAX; k++)
        if (ret_copy && k < ret_size) keep[k] = ((uint8_t *)ret_copy)[k];
    CALL(c->free(c));
    if (ret_copy) {
        bool same = true;
        for (size_t k = 0; k < BMAX; k++)
            if (k < ret_size && ((uint8_t *)ret_copy)[k] != keep[k]) same = false;
        VF_ASSERT(same, "C12." VF_CN ".copy.survives: a returned copy stays intact after the container is released");
        free(ret_copy);
    }
    VF_ASSERT(vf_live_blocks == live_base, LEAK "after free() every block the container allocated has been released");
    VF_REACH("end");
#endif
}
#include "vf_main.h"
