/* C17 / C20 (INI halves): the INI-style configuration parser src/extensions/qconfig.c
 * (qconfig_parse_str, qconfig_parse_file, _parsestr, @INCLUDE splice) together with the real
 * code it runs on: internal/qinternal.c (_q_makeword), utilities/qstring.c (qstrtrim,
 * qstrreplace, qstrdupf) and containers/qlisttbl.c (the result container).
 *
 * ENCODING (read this first).  A text with even ONE symbolic byte makes every scanning loop of
 * this parser fork at that byte and every later length / allocation size symbolic; measured on
 * CBMC 6.11: the 3-byte text "a=?" with one symbolic byte does not finish in 300 s / 7 GB, in any
 * allocator encoding (symbolic sizes, per-size split, constant capacity), SAT or z3.  With a
 * fully concrete text symbolic execution folds and a whole parse costs milliseconds.  So every
 * query here is an EXHAUSTIVE CASE SPLIT: the only symbolic input is the selector vfin.sel in
 * [VF_LO, VF_HI) (or the list VF_LIST); branch `sel == idx` decodes idx (mixed radix) into one concrete member of a
 * finite input family, runs the real parser on it in an exactly sized heap buffer and checks the
 * result.  The solver sees all members of the batch at once; a failing assertion's trace names
 * the member (vfin.sel) and the native replay runs exactly that member.  Families (and their
 * sizes) are enumerated by vlib/fam/ini.py; VF_TOTAL guards against a size mismatch.
 *
 * Environment model (solver build and native replay build alike):
 *   qfile_load / qfile_get_dir  in-memory file system: "f" (main file) and one include file
 *   qgetenv                     one environment variable (name, value, set/unset) per member
 *   qsyscmd                     one command output (or failure) per member
 *   qhashmurmur3_32             sum of bytes (the list table only stores/compares it)
 *   (a getenv()/command result with one symbolic byte on a concrete line: no verdict in 300 s either)
 * libc models (solver build only): strstr, sprintf("%c%s"), snprintf, vsnprintf (%s only), byte-loop
 * memcpy/memmove, strlen/strcmp/strncmp/strcpy/strncpy with per-byte accessibility tests (damage
 * containment, see there).  Scaled knobs (solver build): PATH_MAX 64; -D_VAR_MAX_EXPANSIONS / -D_INCLUDE_MAX
 * are honoured by a bounded _parsestr() / include splice (proposed patches) and ignored by unbounded ones.
 * Termination = unwinding assertions: per family a tight global --unwind (longest text + slack), the ${}
 * expansion loop (_parsestr.2) and the include splice loop (qconfig_parse_file.1) get their own bounds.
 *
 * VF_MODE 1  C17 raw: qconfig_parse_str on every string of length VF_N over alphabet VF_ALPHA
 * VF_MODE 2  C17 raw include: qconfig_parse_file, main = pre + "@INCLUDE " + name + post,
 *            include file raw
 * VF_MODE 3  C17 templates for the ${} expansion loop (VF_L lines of kind VF_K0..VF_K2)
 * VF_MODE 4  C20 print -> parse: structured document of VF_L lines of kind VF_K0..VF_K2
 * VF_MODE 5  C20 qconfig_parse_file: [line A] @INCLUDE name [line B], include file = [line C]
 * VF_MODE 6  C17 include cycle: the included file includes itself
 * -DVF_LEDGER adds the allocation-ledger assertion (tag C11.ini.leak) to any mode.
 */
#include "vf.h"
#include "stubs.h"
#include <stdarg.h>

#ifndef VF_MODE
#define VF_MODE 1
#endif
#ifndef VF_N
#define VF_N 3
#endif
#ifndef VF_ALPHA
#define VF_ALPHA 0
#endif
#ifndef VF_L
#define VF_L 1
#endif
#ifndef VF_K0
#define VF_K0 0
#endif
#ifndef VF_K1
#define VF_K1 0
#endif
#ifndef VF_K2
#define VF_K2 0
#endif
#ifndef VF_RICH
#define VF_RICH 0
#endif
#ifndef VF_LO
#define VF_LO 0
#endif
#ifndef VF_HI
#define VF_HI 1
#endif

/* line kinds of the structured document (modes 4, 5) */
#define K_NONE 0    /* mode 5 only: the line is absent */
#define K_BLANK 1
#define K_COMMENT 2
#define K_SEC 3     /* [sec]  */
#define K_SECEND 4  /* []     */
#define K_KV 5      /* k = v  */
#define K_REF 6     /* k = [lit]${ref} */
#define K_ENV 7     /* k = ${%ENV} */
#define K_REF2 8    /* k = ${r1}[x]${r2}: two references on one line, each defined or not */
/* line kinds of the expansion templates (mode 3) */
#define T_REF 1     /* n=${r}   */
#define T_LITREF 2  /* n=l${r}  */
#define T_ENV 3     /* n=${%e}  */
#define T_CMD 4     /* n=${!c}  */

#if VF_MODE == 4 || VF_MODE == 5
#define HP "C20."
#else
#define HP "C17."
#endif

struct vf_input {
    unsigned sel; /* which member of the family */
};
extern struct vf_input vfin;

/* ------------------------------------------------------------------ allocator
 * Replaces the stubs.h shim for this family: same ledger (vf_live_blocks), never fails, every
 * allocation an exactly sized object. */
#undef malloc
#undef calloc
#undef realloc
#undef strdup
#undef strndup
#undef free
static void *ini_malloc(size_t n) {
    void *p = malloc(n);
    VF_ASSUME(p != NULL);
    vf_live_blocks++;
    return p;
}
static void *ini_calloc(size_t a, size_t b) {
    void *p = calloc(a, b);
    VF_ASSUME(p != NULL);
    vf_live_blocks++;
    return p;
}
static char *ini_strdup(const char *s) {
    size_t n = strlen(s) + 1;
    char *p = (char *)ini_malloc(n);
    for (size_t i = 0; i < n; i++) p[i] = s[i];
    return p;
}
static char *ini_strndup(const char *s, size_t n) {
    size_t l = 0;
    while (l < n && s[l] != '\0') l++;
    char *p = (char *)ini_malloc(l + 1);
    for (size_t i = 0; i < l; i++) p[i] = s[i];
    p[l] = '\0';
    return p;
}
static void ini_free(void *p) {
    if (p != NULL) vf_live_blocks--;
    free(p);
}
#define malloc ini_malloc
#define calloc ini_calloc
#define strdup ini_strdup
#define strndup ini_strndup
#define free ini_free
/* realloc: not used on the paths under test (only qlisttbl_getmulti); left to libc */

/* ------------------------------------------------------------------ environment model */
#define VF_MAINPATH "f"
static char vf_main_txt[96];    /* content of the main file (NUL terminated, length vf_main_len) */
static unsigned vf_main_len;
static char vf_inc_txt[32];
static unsigned vf_inc_len;
static const char *vf_inc_path = "./i";
static int vf_inc_present;
static const char *vf_env_name = "A"; /* the one variable that may be set; NULL = every name */
static const char *vf_env_val;        /* NULL = unset */
static const char *vf_cmd_out;        /* NULL = command fails */
static unsigned vf_loads, vf_env_calls, vf_cmd_calls;

static void *vf_qfile_load(const char *path, size_t *nbytes) {
    const char *src;
    unsigned len;
    vf_loads++;
    if (strcmp(path, VF_MAINPATH) == 0) {
        src = vf_main_txt; len = vf_main_len;
    } else if (vf_inc_present && strcmp(path, vf_inc_path) == 0) {
        src = vf_inc_txt; len = vf_inc_len;
    } else {
        return NULL;
    }
    char *p = (char *)malloc(len + 1); /* exactly file size + 1, as the real qfile_load() */
    for (unsigned i = 0; i < len; i++) p[i] = src[i];
    p[len] = 0;
    if (nbytes) *nbytes = len;
    return p;
}
/* dirname() for the shapes used here: "f" -> ".", "d/f" -> "d", "/f" -> "/" */
static char *vf_qfile_get_dir(const char *path) {
    int last = -1;
    for (int i = 0; path[i]; i++) if (path[i] == '/') last = i;
    if (last < 0) return strdup(".");
    if (last == 0) return strdup("/");
    char *d = (char *)malloc((size_t)last + 1);
    for (int i = 0; i < last; i++) d[i] = path[i];
    d[last] = 0;
    return d;
}
static const char *vf_qgetenv(const char *envname, const char *defstr) {
    vf_env_calls++;
    if (vf_env_val == NULL) return defstr;
    if (vf_env_name != NULL && strcmp(envname, vf_env_name) != 0) return defstr;
    return vf_env_val;
}
static char *vf_qsyscmd(const char *cmd) {
    (void)cmd;
    vf_cmd_calls++;
    if (vf_cmd_out == NULL) return NULL;
    return strdup(vf_cmd_out);
}
static uint32_t vf_hash32(const void *data, size_t n) {
    uint32_t h = 0;
    for (size_t i = 0; i < n; i++) h += ((const unsigned char *)data)[i];
    return h;
}

/* ------------------------------------------------------------------ libc models (solver build) */
#ifdef VF_CBMC
static int vf_bad_rd(const void *p) {
    if (__CPROVER_r_ok(p, 1)) return 0;
    __CPROVER_assert(0, "C17.ini.oob: a string function was handed memory it may not read (unterminated string or stale pointer)");
    return 1;
}
static int vf_bad_wr(void *p) {
    if (__CPROVER_w_ok(p, 1)) return 0;
    __CPROVER_assert(0, "C17.ini.oob.write: a string function was told to write outside the destination object");
    return 1;
}
#define VF_BAD_RD(p) vf_bad_rd(p)
#define VF_BAD_WR(p) vf_bad_wr(p)
static char *vf_strstr(const char *h, const char *n) {
    for (;; h++) {
        size_t i = 0;
        for (;; i++) { if (VF_BAD_RD(n + i)) return NULL; if (n[i] == 0) break; if (VF_BAD_RD(h + i)) return NULL; if (h[i] != n[i]) break; }
        if (n[i] == 0) return (char *)h;
        if (VF_BAD_RD(h)) return NULL;
        if (*h == 0) return NULL;
    }
}
/* formats used by the code under test: "%c%s", "%s.%s", "%s/%s" */
static int vf_vfmt(char *out, size_t size, const char *fmt, va_list ap) {
    size_t n = 0;
    for (const char *f = fmt; *f; f++) {
        if (*f != '%') {
            if (n + 1 < size) out[n] = *f;
            n++;
            continue;
        }
        f++;
        if (*f == 's') {
            const char *s = va_arg(ap, const char *);
            for (; *s; s++) {
                if (n + 1 < size) out[n] = *s;
                n++;
            }
        } else if (*f == 'c') {
            int c = va_arg(ap, int);
            if (n + 1 < size) out[n] = (char)c;
            n++;
        } else {
            __CPROVER_assert(0, "vf_model: format directive outside the vsnprintf model");
        }
    }
    if (size > 0) out[n < size ? n : size - 1] = 0;
    return (int)n;
}
/* the only sprintf of the code under test is sprintf(buf, "%c%s", sepchar, section); non-variadic model
 * (an int read back through va_arg does not constant-fold in CBMC 6.11, a pointer does) */
static int vf_sprintf_cs(char *out, const char *fmt, int c, const char *s) {
    __CPROVER_assert(fmt[0] == '%' && fmt[1] == 'c' && fmt[2] == '%' && fmt[3] == 's' && fmt[4] == 0, "vf_model: sprintf format outside the model");
    size_t n = 0;
    out[n++] = (char)c;
    for (; *s; s++) out[n++] = *s;
    out[n] = 0;
    return (int)n;
}
static int vf_snprintf(char *out, size_t size, const char *fmt, ...) {
    va_list ap;
    va_start(ap, fmt);
    int r = vf_vfmt(out, size, fmt, ap);
    va_end(ap);
    return r;
}
static int vf_vsnprintf(char *out, size_t size, const char *fmt, va_list ap) {
    return vf_vfmt(out, size, fmt, ap);
}
/* String functions with damage containment: a member that has already violated memory safety (reported by
 * CBMC's built-in checks at the faulty access) would turn its strings symbolic, and exploring what the parser
 * does with them costs minutes per member.  Each model below checks accessibility of every byte it touches;
 * an inaccessible byte is reported (tag C17.ini.oob) and the function stops there with a definite result, so
 * the member's execution stays concrete up to its end.  On well-behaved members the checks fold to true. */
static size_t vf_strlen(const char *s) {
    size_t n = 0;
    for (;; n++) { if (VF_BAD_RD(s + n)) return n; if (s[n] == 0) return n; }
}
static int vf_strcmp(const char *a, const char *b) {
    for (size_t i = 0;; i++) {
        if (VF_BAD_RD(a + i) || VF_BAD_RD(b + i)) return 0;
        unsigned char x = (unsigned char)a[i], y = (unsigned char)b[i];
        if (x != y) return x < y ? -1 : 1;
        if (x == 0) return 0;
    }
}
static int vf_strncmp(const char *a, const char *b, size_t n) {
    for (size_t i = 0; i < n; i++) {
        if (VF_BAD_RD(a + i) || VF_BAD_RD(b + i)) return 0;
        unsigned char x = (unsigned char)a[i], y = (unsigned char)b[i];
        if (x != y) return x < y ? -1 : 1;
        if (x == 0) return 0;
    }
    return 0;
}
static char *vf_strcpy(char *d, const char *s) {
    for (size_t i = 0;; i++) { if (VF_BAD_RD(s + i) || VF_BAD_WR(d + i)) return d; d[i] = s[i]; if (s[i] == 0) return d; }
}
static char *vf_strncpy(char *d, const char *s, size_t n) {
    size_t i = 0;
    for (; i < n; i++) { if (VF_BAD_RD(s + i) || VF_BAD_WR(d + i)) return d; d[i] = s[i]; if (s[i] == 0) break; }
    for (; i < n; i++) { if (VF_BAD_WR(d + i)) return d; d[i] = 0; }
    return d;
}
/* byte-loop memcpy/memmove (CBMC's built-in models copy through a variable-length temporary) */
static void *vf_memcpy(void *dst, const void *src, size_t n) {
    __CPROVER_assert(!__CPROVER_same_object(dst, src) || (const char *)dst + n <= (const char *)src || (const char *)src + n <= (const char *)dst,
                     "memcpy src/dst overlap");
    for (size_t i = 0; i < n; i++) { if (VF_BAD_RD((const char *)src + i) || VF_BAD_WR((char *)dst + i)) return dst; ((char *)dst)[i] = ((const char *)src)[i]; }
    return dst;
}
static void *vf_memmove(void *dst, const void *src, size_t n) {
    if (!__CPROVER_same_object(dst, src) || (const char *)dst <= (const char *)src) {
        for (size_t i = 0; i < n; i++) { if (VF_BAD_RD((const char *)src + i) || VF_BAD_WR((char *)dst + i)) return dst; ((char *)dst)[i] = ((const char *)src)[i]; }
    } else {
        for (size_t i = n; i > 0; i--) { if (VF_BAD_RD((const char *)src + i - 1) || VF_BAD_WR((char *)dst + i - 1)) return dst; ((char *)dst)[i - 1] = ((const char *)src)[i - 1]; }
    }
    return dst;
}
#undef strlen
#undef strcmp
#undef strncmp
#undef strcpy
#undef strncpy
#define strlen vf_strlen
#define strcmp vf_strcmp
#define strncmp vf_strncmp
#define strcpy vf_strcpy
#define strncpy vf_strncpy
#undef memcpy
#undef memmove
#undef strstr
#undef sprintf
#undef snprintf
#undef vsnprintf
#define memcpy vf_memcpy
#define memmove vf_memmove
#define strstr vf_strstr
#define sprintf(buf, fmt, c, s) vf_sprintf_cs(buf, fmt, c, s)
#define snprintf vf_snprintf
#define vsnprintf vf_vsnprintf
#endif

/* scaled knob (solver build only): the two path buffers of qconfig_parse_file are char[PATH_MAX]; 4096-byte
 * arrays make every member of the include families cost seconds.  PATH_MAX = 64 keeps all paths used
 * here (<= 6 bytes) far from the limit; the length checks against sizeof(buf) scale with it. */
#ifdef VF_CBMC
#include <limits.h>
#undef PATH_MAX
#define PATH_MAX 64
#endif
#define qfile_load vf_qfile_load
#define qfile_get_dir vf_qfile_get_dir
#define qgetenv vf_qgetenv
#define qsyscmd vf_qsyscmd
#define qhashmurmur3_32 vf_hash32

#include "extensions/qconfig.c"
#include "internal/qinternal.c"
#include "utilities/qstring.c"
#include "containers/qlisttbl.c"

/* ------------------------------------------------------------------ family decoding */
static unsigned vf_x;   /* remaining part of the member index (mixed radix, least significant digit first) */
static unsigned dig(unsigned base) {
    unsigned d = vf_x % base;
    vf_x /= base;
    return d;
}
#define NELEM(a) ((unsigned)(sizeof(a) / sizeof((a)[0])))
/* list sizes by richness level VF_RICH (0 tiny, 1 small, 2 medium, 3 rich): prefixes of the full lists */
#define PICK4(t, a, b, c) (VF_RICH == 0 ? (t) : VF_RICH == 1 ? (a) : VF_RICH == 2 ? (b) : (c))

/* alphabets of the raw modes; 0 is the format's significant alphabet */
static const char *const vf_alphabets[] = {
    "ab=${}[]#%! \n", /* 0: 13 */
    "a=${}\n",        /* 1: 6  */
    "=${}",           /* 2: 4  */
    "a=${}%\n",       /* 3: 7  */
    "a=${}",          /* 4: 5  */
};
static const char *const vf_vals[] = {"", "${", "a", "}", "$", "{a"}; /* env values / command outputs of the C17 modes; index N_VALS = unset/failure */
#define N_VALS PICK4(2, 3, 4, 6)

static unsigned vf_tp;
static char *vf_out;
static void emit(char c) { vf_out[vf_tp++] = c; }
static void emits(const char *s) { for (; *s; s++) emit(*s); }
static void emit_pad(char p) { if (p != 0) emit(p); }

/* every entry of the table is a NUL-terminated (name, string) pair; returns the count */
static unsigned vf_check_table_shape(qlisttbl_t *t, unsigned maxent) {
    unsigned cnt = 0;
    qlisttbl_obj_t *o = t->first;
    for (unsigned i = 0; i < maxent + 1 && o != NULL; i++, o = o->next) {
        VF_ASSERT(o->name != NULL && o->data != NULL && o->size >= 1, "C17.ini.entry: every delivered entry has a name and a string value");
        VF_ASSERT(((char *)o->data)[o->size - 1] == 0, "C17.ini.entry.term: delivered values are NUL-terminated");
        cnt++;
    }
    VF_ASSERT(o == NULL && cnt == t->num && cnt <= maxent, "C17.ini.count: at most one entry per input line");
    return cnt;
}

#ifdef VF_LEDGER
#define LEDGER_BASE() long vf_base = vf_live_blocks
#define LEDGER_CHECK() VF_ASSERT(vf_live_blocks == vf_base, "C11.ini.leak: the parser releases every block it allocated")
#else
#define LEDGER_BASE() ((void)0)
#define LEDGER_CHECK() ((void)0)
#endif

/* ------------------------------------------------------------------ expected-result model (modes 4, 5)
 * parallel plain arrays (no arrays of structs) */
#define SMAX 24
#define EMAX 4
static char ex_name[EMAX][SMAX], ex_val[EMAX][SMAX];
static unsigned char ex_dirty[EMAX]; /* value holds an unresolved ${...} text */
static unsigned ex_n;
static char ex_sec[SMAX];            /* current section, "" = root */
static int ex_excluded;              /* the member is outside the well-formed documents */

static void s_cat(char *d, const char *s) {
    unsigned n = 0;
    while (d[n]) n++;
    for (; *s; s++) d[n++] = *s;
    d[n] = 0;
}
static void s_catc(char *d, char c) {
    unsigned n = 0;
    while (d[n]) n++;
    d[n++] = c;
    d[n] = 0;
}
static int s_eq(const char *a, const char *b) {
    unsigned i = 0;
    for (; a[i] && a[i] == b[i]; i++) ;
    return a[i] == b[i];
}
static void ex_put(const char *name, const char *val, int dirty) {
    ex_name[ex_n][0] = 0;
    if (ex_sec[0]) { s_cat(ex_name[ex_n], ex_sec); s_catc(ex_name[ex_n], '.'); }
    s_cat(ex_name[ex_n], name);
    ex_val[ex_n][0] = 0;
    s_cat(ex_val[ex_n], val);
    ex_dirty[ex_n] = (unsigned char)dirty;
    ex_n++;
}

/* layouts: whitespace in the four slots of a line (lead, inner-left, inner-right, trail) + CR */
static const char vf_lay[6][5] = {
    {0, 0, 0, 0, 0}, {' ', ' ', ' ', ' ', 1}, {'\t', '\t', '\t', '\t', 0}, {0, 0, 0, 0, 1}, {' ', 0, 0, '\t', 0}, {0, ' ', '\t', 0, 0},
};
#define N_LAY PICK4(1, 2, 2, 6)
static const char *const vf_names[] = {"a", "b", "ab", "a.b", "B"};
#define N_NAMES PICK4(2, 2, 3, 5)
static const char *const vf_secs[] = {"a", "b", "ab", "a.b"};
#define N_SECS PICK4(2, 2, 3, 4)
static const char *const vf_kvvals[] = {"x", "", "xy", "a=b", "#x", "x y", "$", "{x}", "[x]", "x#", "$x", "}{", ";x", "x\ty"};
#define N_KVVALS PICK4(2, 2, 4, 14)
static const char *const vf_refs[] = {"a", "b", "a.a", "a.", "b.a", "ab", "b.", "a.b", "c", "ab.a", "a.ab", "b.b"};
#define N_REFS PICK4(4, 4, 6, 12)
static const char vf_pres[] = {0, 'x', '}', '='};
#define N_PRES PICK4(1, 1, 2, 4)
static const char *const vf_comments[] = {"x", "", "a=b", "${a}", "[a]", "#", " x", "a=${a}"};
#define N_COMMENTS PICK4(1, 1, 3, 8)
static const char *const vf_envnames[] = {"A", "B"};
#define N_ENVNAMES 2
/* environment configurations of the C20 modes: variable A (or B) set to a value, or nothing set */
static const char *const vf_envcfg_name[] = {"A", "A", "A", "B", "A", "A"};
static const char *const vf_envcfg_val[] = {NULL, "v", "", "w", " v ", "a=b"};
#define N_ENVCFG PICK4(2, 2, 4, 6)

/* number of variants of one line of kind k */
static unsigned line_radix(int k) {
    switch (k) {
    case K_NONE: return 1;
    case K_BLANK: return N_LAY;
    case K_COMMENT: return N_LAY * N_COMMENTS;
    case K_SEC: return N_LAY * N_SECS;
    case K_SECEND: return N_LAY;
    case K_KV: return N_LAY * N_NAMES * N_KVVALS;
    case K_REF: return N_LAY * N_NAMES * N_REFS * N_PRES;
    case K_ENV: return N_LAY * N_NAMES * N_ENVNAMES;
    case K_REF2: return N_LAY * N_NAMES * 3 * 3 * 2;
    }
    return 1;
}

/* print one line (variant taken from the digit stream) and record what it must yield */
static void doc_line(int kind, int with_nl) {
    char val[SMAX];
    val[0] = 0;
    if (kind == K_NONE) return;
    const char *lay = vf_lay[dig(N_LAY)];
    emit_pad(lay[0]);
    if (kind == K_BLANK) {
        /* nothing */
    } else if (kind == K_COMMENT) {
        emit('#');
        emits(vf_comments[dig(N_COMMENTS)]);
    } else if (kind == K_SEC || kind == K_SECEND) {
        emit('[');
        emit_pad(lay[1]);
        ex_sec[0] = 0;
        if (kind == K_SEC) {
            const char *sec = vf_secs[dig(N_SECS)];
            emits(sec);
            s_cat(ex_sec, sec);
        }
        emit_pad(lay[2]);
        emit(']');
        /* the section marker entry: key "sec." (empty key inside the section), value "sec" */
        if (kind == K_SEC) ex_put("", ex_sec, 0);
    } else {
        const char *name = vf_names[dig(N_NAMES)];
        emits(name);
        emit_pad(lay[1]);
        emit('=');
        emit_pad(lay[2]);
        if (kind == K_KV) {
            const char *v = vf_kvvals[dig(N_KVVALS)];
            emits(v);
            ex_put(name, v, 0);
        } else if (kind == K_REF) {
            const char *ref = vf_refs[dig(N_REFS)];
            char pre = vf_pres[dig(N_PRES)];
            if (pre) { emit(pre); s_catc(val, pre); }
            emits("${");
            emits(ref);
            emit('}');
            /* the value in effect at this line: the latest earlier entry of that (full) name */
            int found = -1;
            for (unsigned j = 0; j < ex_n; j++) if (s_eq(ex_name[j], ref)) found = (int)j;
            if (found >= 0) {
                /* a reference to a value that itself still holds an unresolved ${...} is outside the well-formed documents */
                if (ex_dirty[found]) ex_excluded = 1;
                s_cat(val, ex_val[found]);
                ex_put(name, val, 0);
            } else {
                /* not defined (yet): the text stays as written */
                s_cat(val, "${");
                s_cat(val, ref);
                s_catc(val, '}');
                ex_put(name, val, 1);
            }
        } else if (kind == K_REF2) {
            /* two references on one line: each is replaced by the value in effect when it is defined and stays as written
             * otherwise - independently of the other one (an undefined reference must not stop the expansion of a later one) */
            static const char *const r2refs[3] = {"a", "b", "c"};
            const char *r1 = r2refs[dig(3)], *r2 = r2refs[dig(3)];
            int mid = (int)dig(2);
            int dirty = 0;
            for (int w = 0; w < 2; w++) {
                const char *ref = w == 0 ? r1 : r2;
                if (w == 1 && mid) { emit('x'); s_catc(val, 'x'); }
                emits("${"); emits(ref); emit('}');
                int found = -1;
                for (unsigned j = 0; j < ex_n; j++) if (s_eq(ex_name[j], ref)) found = (int)j;
                if (found >= 0) {
                    if (ex_dirty[found]) ex_excluded = 1;
                    /* values that could combine with their neighbourhood into a new ${...} are outside this family */
                    for (const char *q = ex_val[found]; *q; q++) if (*q == '$' || *q == '{' || *q == '}') ex_excluded = 1;
                    s_cat(val, ex_val[found]);
                } else {
                    s_cat(val, "${"); s_cat(val, ref); s_catc(val, '}');
                    dirty = 1;
                }
            }
            ex_put(name, val, dirty);
        } else { /* K_ENV */
            const char *en = vf_envnames[dig(N_ENVNAMES)];
            emits("${%");
            emits(en);
            emit('}');
            if (vf_env_val != NULL && s_eq(en, vf_env_name)) s_cat(val, vf_env_val);
            ex_put(name, val, 0);
        }
    }
    emit_pad(lay[3]);
    if (with_nl) {
        if (lay[4]) emit('\r');
        emit('\n');
    }
}

/* compare the returned table with the expected ordered entry list */
static void check_table(qlisttbl_t *t) {
    VF_ASSERT(t != NULL, "C20.ini.nonnull: a well-formed text yields a table");
    if (t == NULL) return;
    VF_ASSERT(qlisttbl_size(t) == ex_n, "C20.ini.count: exactly the entries written (comments, blank lines, [] yield none)");
    qlisttbl_obj_t *o = t->first;
    for (unsigned i = 0; i < ex_n; i++) {
        VF_ASSERT(o != NULL, "C20.ini.order: entries are delivered in file order");
        if (o == NULL) return;
        VF_ASSERT(s_eq(ex_name[i], o->name), "C20.ini.name: key = [section '.'] trimmed name");
        VF_ASSERT(o->size == strlen(ex_val[i]) + 1 && s_eq(ex_val[i], (const char *)o->data),
                  "C20.ini.value: value = trimmed text with ${name}/${%ENV} replaced by the value in effect at that line");
        o = o->next;
    }
    VF_ASSERT(o == NULL, "C20.ini.nomore: no entry beyond the ones written");
}

static const int vf_kinds[3] = {VF_K0, VF_K1, VF_K2};
static int has_kind(int k, int upto) {
    for (int i = 0; i < upto; i++) if (vf_kinds[i] == k) return 1;
    return 0;
}

/* ------------------------------------------------------------------ one member of each family */
#if VF_MODE == 1
static unsigned family_total(void) {
    unsigned t = 1, a = (unsigned)strlen(vf_alphabets[VF_ALPHA]);
    for (unsigned i = 0; i < VF_N; i++) t *= a;
    return t;
}
static void run_member(void) {
    const char *alpha = vf_alphabets[VF_ALPHA];
    const unsigned na = (unsigned)strlen(alpha);
    const size_t n = VF_N;
    char orig[VF_N + 1];
    char *s = (char *)malloc(n + 1); /* exactly sized heap buffer */
    for (size_t i = 0; i < n; i++) orig[i] = s[i] = alpha[dig(na)];
    orig[n] = s[n] = 0;
    vf_env_name = NULL; vf_env_val = "${"; vf_cmd_out = " ${ "; /* only reachable from n >= 6 */
    LEDGER_BASE();
    qlisttbl_t *t = qconfig_parse_str(NULL, s, '=');
    VF_ASSERT(t != NULL, "C17.ini.result: the parser delivers a table or reports an error (no error exists for in-memory text)");
    for (size_t i = 0; i <= n; i++) VF_ASSERT(s[i] == orig[i], "C17.ini.input: the caller's text is not modified");
    if (t != NULL) {
        unsigned cnt = vf_check_table_shape(t, (unsigned)n / 2 + 1);
        if (cnt > 0) VF_COVER("entry");
        qlisttbl_free(t);
    }
    LEDGER_CHECK();
    free(s);
}

#elif VF_MODE == 2
static const char *const vf_pre2[] = {"", "a\n", "#", "\n", " ", "a="};
#define N_PRE2 PICK4(2, 3, 4, 6)
static const char *const vf_nm2[] = {"i", "", " i ", "/i", "j", "./i", " ", "i\n", "\n", "i i"};
#define N_NM2 PICK4(3, 5, 8, 10)
static const char *const vf_post2[] = {"", "\na", "=${a}", "\n", "\n@INCLUDE i"};
#define N_POST2 PICK4(2, 3, 4, 5)
static const char *const vf_inc2[] = {"a=b", "", "[a]\n", "${", "a", "a=b\n", "\n", "=${}", "#"};
#define N_INC2 PICK4(2, 4, 6, 9)
static unsigned family_total(void) { return N_PRE2 * N_NM2 * N_POST2 * N_INC2 * 2; }
static void run_member(void) {
    vf_out = vf_main_txt;
    vf_tp = 0;
    emits(vf_pre2[dig(N_PRE2)]);
    emits("@INCLUDE ");
    emits(vf_nm2[dig(N_NM2)]);
    emits(vf_post2[dig(N_POST2)]);
    vf_main_txt[vf_tp] = 0;
    vf_main_len = vf_tp;
    vf_out = vf_inc_txt;
    vf_tp = 0;
    emits(vf_inc2[dig(N_INC2)]);
    vf_inc_txt[vf_tp] = 0;
    vf_inc_len = vf_tp;
    vf_inc_present = (int)dig(2);
    vf_inc_path = "./i";
    vf_env_val = NULL; vf_cmd_out = NULL;
    LEDGER_BASE();
    qlisttbl_t *t = qconfig_parse_file(NULL, VF_MAINPATH, '=');
    if (t != NULL) {
        vf_check_table_shape(t, 6);
        if (vf_loads >= 2) VF_COVER("included");
        qlisttbl_free(t);
    } else {
        VF_ASSERT(vf_loads >= 1, "C17.ini.file.err: NULL only after trying to load");
        VF_COVER("rejected");
    }
    LEDGER_CHECK();
}

#elif VF_MODE == 3
static const char vf_lits[] = {'x', '$', '{', '}'};
#define N_LITS PICK4(1, 1, 2, 4)
static unsigned family_total(void) {
    unsigned t = 1;
    for (unsigned i = 0; i < VF_L; i++) t *= 9 * (vf_kinds[i] == T_LITREF ? N_LITS : 1);
    if (has_kind(T_ENV, VF_L)) t *= N_VALS + 1;
    if (has_kind(T_CMD, VF_L)) t *= N_VALS + 1;
    return t;
}
static void run_member(void) {
    unsigned len = 0;
    for (unsigned i = 0; i < VF_L; i++) len += (vf_kinds[i] == T_REF ? 7 : 8);
    char *s = (char *)malloc(len + 1);
    vf_out = s;
    vf_tp = 0;
    for (unsigned i = 0; i < VF_L; i++) {
        int k = vf_kinds[i];
        emit("abc"[dig(3)]);
        emit('=');
        if (k == T_LITREF) emit(vf_lits[dig(N_LITS)]);
        emit('$');
        emit('{');
        if (k == T_ENV) emit('%');
        if (k == T_CMD) emit('!');
        emit("abc"[dig(3)]);
        emit('}');
        emit('\n');
    }
    s[vf_tp] = 0;
    VF_ASSERT(vf_tp == len, "C17.ini.tpl.len: harness layout");
    vf_env_name = NULL; vf_env_val = NULL; vf_cmd_out = NULL;
    if (has_kind(T_ENV, VF_L)) { unsigned d = dig(N_VALS + 1); vf_env_val = d < N_VALS ? vf_vals[d] : NULL; }
    if (has_kind(T_CMD, VF_L)) { unsigned d = dig(N_VALS + 1); vf_cmd_out = d < N_VALS ? vf_vals[d] : NULL; }
    LEDGER_BASE();
    qlisttbl_t *t = qconfig_parse_str(NULL, s, '=');
    VF_ASSERT(t != NULL, "C17.ini.result: the parser delivers a table or reports an error (no error exists for in-memory text)");
    if (t != NULL) {
        unsigned cnt = vf_check_table_shape(t, VF_L);
        VF_ASSERT(cnt == VF_L, "C17.ini.tpl.count: every name=... line yields an entry");
        qlisttbl_free(t);
    }
    LEDGER_CHECK();
    free(s);
}

#elif VF_MODE == 4
static unsigned family_total(void) {
    unsigned t = 2; /* last line with / without '\n' */
    for (unsigned i = 0; i < VF_L; i++) t *= line_radix(vf_kinds[i]);
    if (has_kind(K_ENV, VF_L)) t *= N_ENVCFG;
    return t;
}
static void run_member(void) {
    static char buf[96];
    vf_out = buf;
    vf_tp = 0;
    vf_cmd_out = NULL;
    vf_env_val = NULL;
    if (has_kind(K_ENV, VF_L)) { unsigned c = dig(N_ENVCFG); vf_env_name = vf_envcfg_name[c]; vf_env_val = vf_envcfg_val[c]; }
    unsigned last_nl = dig(2);
    for (unsigned i = 0; i < VF_L; i++) doc_line(vf_kinds[i], (i + 1 < VF_L) || last_nl);
    if (ex_excluded) return;
    /* hand the text over in an exactly sized heap buffer */
    unsigned len = vf_tp;
    char *s = (char *)malloc((size_t)len + 1);
    for (unsigned i = 0; i < len; i++) s[i] = buf[i];
    s[len] = 0;
    LEDGER_BASE();
    qlisttbl_t *t = qconfig_parse_str(NULL, s, '=');
    check_table(t);
    if (t != NULL) qlisttbl_free(t);
    LEDGER_CHECK();
    free(s);
    VF_COVER("checked");
}

#elif VF_MODE == 5
/* main file "f":  [line A] "@INCLUDE " [pad] name [pad] ["\n" line B];   include file: [line C] */
/* structural variants of the include directive: padding (0 none, 1 spaces around the name, 2 tab after),
 * absolute path, presence (0 present under the name written, 1 other name written, 2 file missing),
 * include text ends in '\n', main text ends in '\n' */
static const unsigned char vf_struct5[][5] = {
    {0, 0, 0, 1, 1}, {1, 0, 0, 0, 1}, {0, 0, 2, 1, 1}, {2, 1, 0, 1, 0}, {0, 0, 1, 1, 1}, {0, 1, 0, 0, 0}, {1, 1, 2, 0, 1}, {2, 0, 0, 0, 0},
};
#ifndef VF_NSTRUCT
#define VF_NSTRUCT 8
#endif
#define N_STRUCT5 VF_NSTRUCT
static unsigned family_total(void) {
    unsigned t = line_radix(VF_K0) * line_radix(VF_K1) * line_radix(VF_K2);
    if (VF_K0 == K_ENV || VF_K1 == K_ENV || VF_K2 == K_ENV) t *= N_ENVCFG;
    return t * N_STRUCT5;
}
static void run_member(void) {
    vf_cmd_out = NULL;
    vf_env_val = NULL;
    if (VF_K0 == K_ENV || VF_K1 == K_ENV || VF_K2 == K_ENV) { unsigned c = dig(N_ENVCFG); vf_env_name = vf_envcfg_name[c]; vf_env_val = vf_envcfg_val[c]; }
    const unsigned char *sv = vf_struct5[dig(N_STRUCT5)];
    unsigned padk = sv[0], abs = sv[1], pres = sv[2], inc_nl = sv[3], last_nl = sv[4];
    vf_out = vf_main_txt;
    vf_tp = 0;
    /* expected order: A, C, B - the model is fed in that order while the two texts are printed */
    doc_line(VF_K0, 1);
    emits("@INCLUDE ");
    if (padk == 1) emit(' ');
    emits(abs ? "/" : "");
    emits(pres == 1 ? "j" : "i");
    if (padk == 1) emit(' ');
    if (padk == 2) emit('\t');
    unsigned tp_main = vf_tp;
    vf_out = vf_inc_txt;
    vf_tp = 0;
    doc_line(VF_K1, (int)inc_nl);
    vf_inc_txt[vf_tp] = 0;
    vf_inc_len = vf_tp;
    vf_out = vf_main_txt;
    vf_tp = tp_main;
    if (VF_K2 != K_NONE) {
        emit('\n');
        doc_line(VF_K2, (int)last_nl);
    } else if (last_nl) {
        emit('\n');
    }
    vf_main_txt[vf_tp] = 0;
    vf_main_len = vf_tp;
    vf_inc_present = pres != 2;
    vf_inc_path = abs ? "/i" : "./i";
    if (ex_excluded) return;
    LEDGER_BASE();
    qlisttbl_t *t = qconfig_parse_file(NULL, VF_MAINPATH, '=');
    if (pres == 0) {
        VF_ASSERT(vf_loads == 2, "C20.ini.include.loads: the main file and the included file are each loaded once");
        check_table(t);
        VF_COVER("included");
    } else {
        VF_ASSERT(t == NULL, "C20.ini.include.missing: a missing include file makes the parse fail (NULL)");
        VF_COVER("missing");
    }
    if (t != NULL) qlisttbl_free(t);
    LEDGER_CHECK();
    VF_COVER("checked");
}
#elif VF_MODE == 6
/* include cycle: main file "f" = "@INCLUDE i\n", the include file names itself again */
static const char *const vf_cyc[] = {"@INCLUDE i", "@INCLUDE i\n", "a=b\n@INCLUDE i\n"};
static unsigned family_total(void) { return NELEM(vf_cyc); }
static void run_member(void) {
    vf_out = vf_main_txt;
    vf_tp = 0;
    emits("@INCLUDE i\n");
    vf_main_txt[vf_tp] = 0;
    vf_main_len = vf_tp;
    vf_out = vf_inc_txt;
    vf_tp = 0;
    emits(vf_cyc[dig(NELEM(vf_cyc))]);
    vf_inc_txt[vf_tp] = 0;
    vf_inc_len = vf_tp;
    vf_inc_present = 1;
    vf_inc_path = "./i";
    vf_env_val = NULL; vf_cmd_out = NULL;
    LEDGER_BASE();
    qlisttbl_t *t = qconfig_parse_file(NULL, VF_MAINPATH, '=');
    /* terminating is the claim (unwinding assertions); either outcome - a table or NULL - is a report */
    if (t != NULL) { vf_check_table_shape(t, 40); qlisttbl_free(t); VF_COVER("delivered"); }
    else VF_COVER("rejected");
    LEDGER_CHECK();
}
#else
#error "unknown VF_MODE"
#endif

/* ------------------------------------------------------------------ the query: exhaustive case split over the
 * members [VF_LO, VF_HI) or, with -DVF_LIST=i,j,k..., over the listed members */
#ifdef VF_LIST
static const unsigned vf_list[] = {VF_LIST};
#define VF_NMEMB NELEM(vf_list)
#define VF_MEMBER(k) vf_list[k]
#else
#define VF_NMEMB (VF_HI - VF_LO)
#define VF_MEMBER(k) (VF_LO + (k))
#endif
void vf_harness(void) {
#ifdef VF_TOTAL
    VF_ASSERT(family_total() == VF_TOTAL, HP "ini.harness.total: driver and harness agree on the size of the family");
#endif
    for (unsigned k = 0; k < VF_NMEMB; k++) {
        const unsigned idx = VF_MEMBER(k);
        if (vfin.sel == idx) {
            vf_x = idx;
            VF_REACH("member");
            run_member();
            VF_ASSERT(vf_x == 0, HP "ini.harness.digits: member index fully decoded");
#ifdef VF_LOOPBATCH
            VF_COVER("end"); /* batch of members whose expansion may never end: the end is reachable only on a bounded _parsestr() */
#else
            VF_REACH("end");
#endif
#ifdef VF_CBMC
            __CPROVER_assume(0); /* this member's path ends here: nothing to merge into the next member's state */
#else
            return;
#endif
        }
    }
}
#include "vf_main.h"
