#!/usr/bin/env python3
"""Enumerates every (shape, colouring) of a left-leaning red-black tree in the 2-3-4 variant used by
qtreetbl.c (LLRB234): BST shape, black root, no red node with a red child, equal black height on all
paths, no right-leaning lone red link (right child red => left child red).  Pure combinatorics,
independent of the qlibc code.  A tree is a tuple (red, left, right) or None."""
import functools, sys


def is_red(t):
    return t is not None and t[0]


@functools.lru_cache(maxsize=None)
def subtrees(bh, red_root, nmax):
    """all valid subtrees with at most nmax nodes whose root is red/black as requested, black height bh (None has bh 0)."""
    out = []
    if nmax < 0:
        return ()
    if not red_root:
        if bh == 0:
            return (None,)
        if nmax < 1:
            return ()
        for l in subtrees(bh - 1, False, nmax - 1) + subtrees(bh - 1, True, nmax - 1):
            rest = nmax - 1 - size(l)
            for r in subtrees(bh - 1, False, rest) + subtrees(bh - 1, True, rest):
                if is_red(r) and not is_red(l):
                    continue
                out.append((False, l, r))
    else:
        if nmax < 1:
            return ()
        for l in subtrees(bh, False, nmax - 1):
            rest = nmax - 1 - size(l)
            for r in subtrees(bh, False, rest):
                out.append((True, l, r))
    return tuple(out)


@functools.lru_cache(maxsize=None)
def size(t):
    return 0 if t is None else 1 + size(t[1]) + size(t[2])


def height(t):
    return 0 if t is None else 1 + max(height(t[1]), height(t[2]))


def trees_upto(nmax):
    out = []
    bh = 0
    while True:
        ts = subtrees(bh, False, nmax)
        if not ts:
            break
        out += list(ts)
        bh += 1
    out.sort(key=lambda t: (size(t), encode(t)['code']))
    return out


def encode(t):
    """nodes numbered by in-order rank; returns dict n, root, left[], right[], red[], height, id"""
    left, right, red = [], [], []

    def walk(t):
        if t is None:
            return -1
        l = walk(t[1])
        me = len(left)
        left.append(l)
        right.append(None)
        red.append(1 if t[0] else 0)
        r = walk(t[2])
        right[me] = r
        return me
    root = walk(t)
    n = len(left)
    ident = 'n%d_' % n + ''.join('%s%s%s' % ('r' if red[i] else 'b', 'x' if left[i] < 0 else left[i], 'x' if right[i] < 0 else right[i]) for i in range(n)) if n <= 0 else None
    code = 'n%d.' % n + '.'.join('%s%s%s' % ('R' if red[i] else 'B', '-' if left[i] < 0 else format(left[i], 'x'), '-' if right[i] < 0 else format(right[i], 'x')) for i in range(n))
    import hashlib
    return {'n': n, 'root': root, 'left': left, 'right': right, 'red': red, 'height': height(t), 'id': 'n%d_%s' % (n, hashlib.sha1(code.encode()).hexdigest()[:8]), 'code': code}


def is_valid(t):
    def bh(t):
        if t is None:
            return 0
        lr, rr = is_red(t[1]), is_red(t[2])
        if t[0] and (lr or rr):
            return -1
        if rr and not lr:
            return -1
        a, b = bh(t[1]), bh(t[2])
        if a < 0 or b < 0 or a != b:
            return -1
        return a + (0 if t[0] else 1)
    return (not is_red(t)) and bh(t) >= 0


@functools.lru_cache(maxsize=None)
def all_coloured(n):
    """every binary tree shape with exactly n nodes under every red/black colouring (valid or not)"""
    if n == 0:
        return (None,)
    out = []
    for k in range(n):
        for l in all_coloured(k):
            for r in all_coloured(n - 1 - k):
                out.append((False, l, r))
                out.append((True, l, r))
    return tuple(out)


if __name__ == '__main__':
    nmax = int(sys.argv[1]) if len(sys.argv) > 1 else 7
    ts = trees_upto(nmax)
    from collections import Counter
    c = Counter(size(t) for t in ts)
    print('total', len(ts), dict(sorted(c.items())))
