#!/usr/bin/env python3
"""Enumerates every well-formed slot-graph layout of a static hash table (qhasharr) with M slots.
Pure combinatorics, independent of qhasharr.c.  A layout is a list of chains; each chain =
(home, [slot indexes: key slot first, then its extension blocks in link order]).  Rules:
 - every slot belongs to at most one chain (others are free)
 - a chain whose key slot index == home is the LEADING key of that home; a chain with key slot != home is a
   COLLISION key and requires a leading chain for its home
 - the leading slot's count = number of chains with that home
Returned encoding per slot: kind F/L/C/E, count, hashfield (home, or previous block for E), link."""
import itertools, sys


def layouts(M):
    out = []
    slots = list(range(M))

    def rec(free, chains):
        # canonical order: chains sorted by key slot to avoid permutations
        out.append(list(chains))
        for ks in free:
            if chains and ks < chains[-1][1][0]:
                continue
            rest = [s for s in free if s != ks]
            for ne in range(0, len(rest) + 1):
                for ext in itertools.permutations(rest, ne):
                    for home in range(M):
                        rec([s for s in rest if s not in ext], chains + [(home, [ks] + list(ext))])
    rec(slots, [])
    good = []
    for ch in out:
        leading = {h for (h, sl) in ch if sl[0] == h}
        if all(h in leading for (h, sl) in ch):
            good.append(ch)
    return good


def encode(M, ch):
    kind = ['F'] * M
    count = [0] * M
    hf = [0] * M
    link = [-1] * M
    keyslot = []
    for (h, sl) in ch:
        ks = sl[0]
        keyslot.append(ks)
        if ks == h:
            kind[ks] = 'L'
            count[ks] = sum(1 for (h2, _) in ch if h2 == h)
        else:
            kind[ks] = 'C'
            count[ks] = -1
        hf[ks] = h
        prev = ks
        for e in sl[1:]:
            kind[e] = 'E'
            count[e] = -2
            hf[e] = prev
            link[prev] = e
            prev = e
    used = sum(len(sl) for (_, sl) in ch)
    ident = 'm%d.' % M + ('_'.join('h%d' % h + 's' + ''.join(str(x) for x in sl) for (h, sl) in ch) if ch else 'empty')
    return {'M': M, 'kind': kind, 'count': count, 'hf': hf, 'link': link, 'chains': ch, 'nkeys': len(ch), 'used': used, 'id': ident}


if __name__ == '__main__':
    for M in range(1, int(sys.argv[1]) + 1 if len(sys.argv) > 1 else 4):
        ls = layouts(M)
        print(M, len(ls))
