#!/bin/sh
# runs seedcheck for the listed seeds sequentially: tools/seedqueue.sh C10-1 C10-2 ...
cd /verif
for s in "$@"; do
  p=${s%-*}; k=${s#*-}
  extra=""
  case $p in
    C11) extra="--props C11,C06,C09";;
    C12) extra="--props C12,C01";;
  esac
  VERIF_JOBS=${VERIF_JOBS:-8} python3 tools/seedcheck.py $p $k $extra > /tmp/seedlog_$s.json 2>&1
done
echo done > /tmp/seedqueue.$$.done
