#!/usr/bin/env python3
"""Regenerates /verif/MANIFEST.json from the table below (so it is always schema-valid)."""
import json, os, sys
V = os.path.dirname(os.path.dirname(os.path.abspath(__file__)))
sys.path.insert(0, V)
from tools.manifest_table import CHECKS, NOT_APPLICABLE, HOOK_COMMITS

def build():
    checks = []
    for c in CHECKS:
        pid = c['id']
        checks.append({
            'property_id': pid,
            'quick_cmd': './vcheck %s --tier quick' % pid,
            'thorough_cmd': './vcheck %s --tier thorough' % pid,
            'evidence_file': 'evidence/%s.json' % pid,
            'replay_cmd_template': './vcheck %s --replay {path}' % pid,
            'engine': 'vcheck',
            'level_claimed': {'category': c.get('category', 'model_checking'), 'text': c['text'], 'design_ref': c.get('design_ref', 'DESIGN.md section 3, ' + pid)},
            'level_note': c['note'],
            'technique': c['technique'],
        })
    return {
        'version': 1,
        'setup_cmd': './setup.sh',
        'hooks': {
            'guard': 'QLIBC_VERIF',
            'enable': 'harnesses are compiled by goto-cc with -DQLIBC_VERIF (plus -DVF_CBMC) and #include the real .c files of /repo; no build of the library itself is needed',
            'baseline_off_cmd': 'cd /repo && cmake -G Ninja -B _build >/dev/null && cmake --build _build && ctest --test-dir _build -j8 --timeout 900',
            'source_commits': HOOK_COMMITS,
            'add_only': True,
        },
        'engines': [{'name': 'vcheck', 'path': 'vcheck', 'serves_properties': [c['id'] for c in CHECKS],
                     'kind_free_text': 'python driver: goto-cc build of harness + real qlibc translation units, cbmc 6.11 bounded symbolic execution (SAT: minisat/cadical/kissat; SMT: z3), witness (vacuity) assertions, native ASan/UBSan replay of counterexamples'}],
        'checks': checks,
        'not_applicable': NOT_APPLICABLE,
        'notes': 'All claims are bounded (sizes, unwindings are in each evidence file under coverage.bounds). See DESIGN.md.',
    }

if __name__ == '__main__':
    m = build()
    p = os.path.join(V, 'MANIFEST.json')
    if '--check' in sys.argv:
        cur = json.load(open(p))
        sys.exit(0 if cur == m else (print('MANIFEST.json is stale: run tools/mkmanifest.py') or 1))
    json.dump(m, open(p, 'w'), indent=1)
    try:
        import jsonschema
        jsonschema.validate(m, json.load(open('/root/.vp/MANIFEST.schema.json')))
        print('valid')
    except ImportError:
        print('written (jsonschema not available for validation)')
