#!/usr/bin/env python3
"""rewrites the seed table between the SEEDTABLE markers of DESIGN.md from seeded/*/meta.json"""
import os, re, subprocess, sys
V = os.path.dirname(os.path.dirname(os.path.abspath(__file__)))
t = subprocess.run([sys.executable, os.path.join(V, 'tools', 'seedtable.py')], stdout=subprocess.PIPE).stdout.decode()
p = os.path.join(V, 'DESIGN.md')
s = open(p).read()
s = re.sub(r'<!-- SEEDTABLE BEGIN -->.*?<!-- SEEDTABLE END -->', lambda m: '<!-- SEEDTABLE BEGIN -->\n' + t + '<!-- SEEDTABLE END -->', s, flags=re.S)
open(p, 'w').write(s)
