#!/usr/bin/env python3
"""prints the markdown table of seeded defects (DESIGN.md section 13) from seeded/*/meta.json"""
import json, glob, os
V = os.path.dirname(os.path.dirname(os.path.abspath(__file__)))
rows = []
for f in sorted(glob.glob(V + '/seeded/*/meta.json')):
    d = json.load(open(f))
    det = d.get('detection', {})
    caught = ", ".join(sorted(set(["%s (%d VIOLATION lines, %ds)" % (p, det[p]["violations"], det[p]["wall_s"]) for p in sorted(det) if det[p]["rc"] == 1 and det[p]["violations"] > 0] + ["%s (%d VIOLATION lines, targeted re-run)" % (p, v["violations"]) for p, v in sorted(d.get("detection_targeted", {}).items()) if v["rc"] == 1 and v["violations"] > 0 and not (p in det and det[p]["rc"] == 1 and det[p]["violations"] > 0)]))) or "MISSED"
    what = (d.get('what_breaks') or '').replace('\n', ' ').replace('|', '/')
    what = what[:170] + ('...' if len(what) > 170 else '')
    rows.append('| %s | %s | %s | %s |' % (d['seed'], 'yes' if d.get('confirmed') else 'NO', what, caught))
print('| seed | confirmed (tests pass, demo fails only with the change) | what the change breaks | caught by (quick tier) |')
print('|---|---|---|---|')
print('\n'.join(rows))
