#!/usr/bin/env python3
"""seedcheck.py <Cxx> <k> [--props C01,C11] : confirm a seeded defect delivered under /tmp/seed/<Cxx>/out and run checks against it.
1. confirm in the scratch worktree: demo passes on clean sources; with the patch the library builds, the 10 tests pass, the demo fails
2. copy patch/demo/meta to /verif/seeded/<Cxx>-<k>/
3. run the checks against a patched COPY of /repo (VERIF_REPO) with outputs under /tmp/seedrun (VERIF_OUT), record which checks report a VIOLATION"""
import json, os, shutil, subprocess, sys, time
V = '/verif'


def sh(cmd, cwd=None, timeout=1800, env=None):
    try:
        p = subprocess.run(cmd, shell=True, cwd=cwd, stdout=subprocess.PIPE, stderr=subprocess.STDOUT, timeout=timeout, env=env)
        return p.returncode, p.stdout.decode('utf-8', 'replace')
    except subprocess.TimeoutExpired as e:
        return 124, (e.stdout or b'').decode('utf-8', 'replace') + '\n[timeout]'


def main():
    pid, k = sys.argv[1], sys.argv[2]
    props = None
    if '--props' in sys.argv:
        props = sys.argv[sys.argv.index('--props') + 1].split(',')
    skip_confirm = '--skip-confirm' in sys.argv
    onlys = sys.argv[sys.argv.index('--only') + 1].split(',') if '--only' in sys.argv else None   # one case-id regex per property of --props ('' = full run)
    ks = sys.argv[sys.argv.index('--as') + 1] if '--as' in sys.argv else k   # number under which the seed is stored in /verif/seeded
    wt = '/tmp/seed/%s' % pid
    out = '%s/out' % wt
    patch = '%s/patch%s.diff' % (out, k)
    meta = json.load(open('%s/meta%s.json' % (out, k)))
    prev_meta = '%s/seeded/%s-%s/meta.json' % (V, pid, ks)
    prev = json.load(open(prev_meta)) if (skip_confirm and os.path.exists(prev_meta)) else {}
    rec = {'seed': '%s-%s' % (pid, ks), 'property': pid, 'what_breaks': meta.get('what_breaks'), 'needs_to_manifest': meta.get('needs_to_manifest'), 'ran': []}
    for kk in ('confirmed', 'demo_clean_rc', 'demo_patched_rc', 'tests_with_patch', 'demo_cmd'):
        if kk in prev:
            rec[kk] = prev[kk]
    if prev.get('ran'):
        rec['ran'] = [x for x in prev['ran'] if x.startswith('scratch worktree')]
    if prev.get('detection'):
        rec['earlier_detection_before_check_was_strengthened'] = {p: {'rc': v['rc'], 'violations': v['violations']} for p, v in prev['detection'].items()}
    cmd = meta.get('build_and_run')
    if isinstance(cmd, list):
        cmd = '\n'.join(cmd)
    import re
    lines = []
    for ln in cmd.split('\n'):
        ln = re.sub(r'\s+#.*$', '', ln)               # trailing comments
        ln = re.sub(r'git( -C \S+)? apply[^&;\n]*(&&|;)?', '', ln)   # the driver applies / reverts the patch itself
        ln = re.sub(r'git( -C \S+)? checkout[^&;\n]*(&&|;)?', '', ln)
        if ln.strip():
            lines.append(ln)
    cmd = '\n'.join(lines)
    rec['demo_cmd'] = cmd

    def demo_rc(rc, o):
        m = re.findall(r'exit=(\d+)', o)
        return int(m[-1]) if m else rc
    if not skip_confirm:
        sh('git checkout -- src include', cwd=wt)
        sh('cmake -G Ninja -B _build >/dev/null && cmake --build _build', cwd=wt, timeout=900)
        rc0, o0 = sh(cmd, cwd=wt, timeout=600)
        rc0 = demo_rc(rc0, o0)
        rec['demo_clean_rc'] = rc0
        rc, o = sh('git apply %s' % patch, cwd=wt)
        if rc != 0:
            rec['error'] = 'patch does not apply: ' + o[-500:]
            print(json.dumps(rec, indent=1)); return 2
        rcb, ob = sh('cmake -G Ninja -B _build >/dev/null && cmake --build _build 2>&1 | tail -3 && cd _build && ctest -j8 --timeout 900 2>&1 | tail -4', cwd=wt, timeout=1500)
        rec['tests_with_patch'] = '100% tests passed' in ob
        rec['tests_tail'] = ob[-300:]
        rc1, o1 = sh(cmd, cwd=wt, timeout=600)
        rc1 = demo_rc(rc1, o1)
        rec['demo_patched_rc'] = rc1
        rec['demo_patched_tail'] = o1[-400:]
        sh('git checkout -- src include', cwd=wt)
        sh('cmake --build _build', cwd=wt, timeout=900)  # lib/ back to the clean build
        sh('rm -rf _build', cwd=wt)
        rec['confirmed'] = (rc0 == 0 and rc1 != 0 and rec['tests_with_patch'])
        rec['ran'].append('scratch worktree %s: demo on clean sources rc=%s; git apply; cmake build + ctest (10 tests) ; demo rc=%s' % (wt, rc0, rc1))
    # keep
    sd = '%s/seeded/%s-%s' % (V, pid, ks)
    os.makedirs(sd, exist_ok=True)
    shutil.copy(patch, sd + '/patch.diff')
    shutil.copy('%s/demo%s.c' % (out, k), sd + '/demo.c')
    # checks against a patched copy
    run = '/tmp/seedrun/%s-%s' % (pid, ks)
    shutil.rmtree(run, ignore_errors=True)
    os.makedirs(run + '/repo')
    sh('cp -r /repo/src /repo/include %s/repo/' % run)
    rc, o = sh('patch -p1 -s < %s' % patch, cwd=run + '/repo')
    if rc != 0:
        rec['error'] = 'patch does not apply to current /repo: ' + o[-300:]
    det = {}
    for p in (props or [pid]):
        env = dict(os.environ, VERIF_REPO=run + '/repo', VERIF_OUT=run, VERIF_JOBS=os.environ.get('VERIF_JOBS', '8'))
        t0 = time.time()
        only = (onlys[(props or [pid]).index(p)] if onlys and (props or [pid]).index(p) < len(onlys) else '') or None
        rc, o = sh('./vcheck %s --tier quick%s' % (p, (" --only '%s'" % only) if only else ''), cwd=V, timeout=3000, env=env)
        lines = [l for l in o.splitlines() if l.startswith('VIOLATION') or l.startswith(p + ' quick') or l.startswith('BROKEN') or l.startswith('INCONCLUSIVE') or l.startswith('ENCODING')]
        det[p] = {'rc': rc, 'violations': sum(1 for l in lines if l.startswith('VIOLATION')), 'summary': [l for l in lines if not l.startswith('VIOLATION')][:4], 'first': [l for l in lines if l.startswith('VIOLATION')][:3], 'wall_s': round(time.time() - t0)}
        if only:
            det[p]['only'] = only
        rec['ran'].append('VERIF_REPO=<patched copy of /repo> ./vcheck %s --tier quick%s -> rc=%d, %d VIOLATION lines' % (p, (" --only '%s'" % only) if only else '', rc, det[p]['violations']))
    rec['detection'] = det
    rec['detected_by'] = sorted(p for p in det if det[p]['rc'] == 1 and det[p]['violations'] > 0)
    json.dump(rec, open(sd + '/meta.json', 'w'), indent=1)
    shutil.rmtree(run, ignore_errors=True)
    print(json.dumps({k2: rec[k2] for k2 in rec if k2 not in ('tests_tail', 'demo_patched_tail')}, indent=1))
    return 0


if __name__ == '__main__':
    sys.exit(main())
