HOOK_COMMITS = []
NA = lambda i, r: {'property_id': i, 'reason': r}
CHECKS = [
 {'id': 'C16',
  'technique': 'CBMC bounded symbolic execution of qencode.c per (codec, length), all bytes symbolic, vs RFC reference; SAT',
  'text': 'For every payload up to the stated length every byte is a solver variable: round trip, exact output format (RFC 4648 reference, lowercase hex, URL safe set) and decoder leniency are proved for all inputs within the bound; nothing is claimed beyond it.',
  'note': 'Trusted: CBMC 6.11 C semantics and its malloc/strdup/strlen models, the reference encoders in ref/encref.h. malloc assumed not to fail.'},
]
_claimed = set(c['id'] for c in CHECKS)
NOT_APPLICABLE = [NA('C%02d' % i, 'check not built yet in this revision (work in progress; see DESIGN.md)') for i in range(1, 21) if 'C%02d' % i not in _claimed]
