HOOK_COMMITS = ['da136f3', '8dfdeaa', '7714bae', 'b67a735']  # QLIBC_VERIF_MAX_LINESIZE (qaconf.c), QLIBC_VERIF_HASHARR_NAMESIZE/DATASIZE (qhasharr.h), QLIBC_VERIF_MAX_MUTEX_LOCK_WAIT, QLIBC_VERIF_VSPRINTF_INITSIZE (qinternal.h)
NA = lambda i, r: {'property_id': i, 'reason': r}
_T = 'CBMC 6.11 bounded symbolic execution of the real translation units (goto-cc build from /repo on every run); '
_NOTE = ('Trusted base: CBMC 6.11 C semantics, its SAT/SMT back ends and its models of malloc/free/memcpy/strlen etc.; the harness stubs listed in the evidence file; '
         'the reference/ideal models in /verif/harness and /verif/ref. Every harness carries a reachability witness that the solver must report reachable (vacuity guard); '
         'counterexamples are replayed natively (gcc + ASan/UBSan) before a VIOLATION is printed. Claims hold only within the bounds stated in the evidence (coverage.bounds).')


def C(i, technique, text, category='model_checking'):
    return {'id': i, 'technique': _T + technique, 'text': text, 'note': _NOTE, 'category': category}


CHECKS = [
 C('C01', 'inductive step from every valid LLRB (shape, colouring) up to the node bound (driver-enumerated), symbolic key/values, vs ideal sorted map; SAT',
   'For every valid tree shape up to the bound and every key position (each present key, each gap) one put/remove/get/min/max/size/clear is proved to act as on an ideal sorted map, for default, user and reversed comparators and for binary and string keys. Base case + step cover histories of any length whose trees stay within the bound; larger trees are outside the claim.'),
 C('C02', 'invariant-closure queries with an independent iterative LLRB checker; qtreetbl_check agreement on all valid and all small invalid coloured trees; counting comparator; SAT',
   'Every put/remove from every valid shape within the bound yields a valid LLRB; qtreetbl_check() accepts every valid tree up to bound+1 and rejects every invalid coloured tree up to a small size; lookups stay within 2*log2(n+1) comparisons.'),
 C('C03', 'walk from over-approximated history state: table epoch, node stamps and parent links arbitrary under an inductive invariant; SAT',
   'The traversal bookkeeping (8-bit epoch, per-node stamp, per-node parent link) is made arbitrary instead of exploring histories, so walks after >256 traversal starts, abandoned walks, and root changes are all covered within the node bound; the invariant "no stamp exceeds the epoch" is proved to be preserved by every operation.'),
 C('C04', 'find_nearest from the same over-approximated history states, termination by unwinding assertions replayed natively under a watchdog; SAT',
   'Floor semantics, history independence and termination for every probe position in every valid shape within the bound with arbitrary stale links (including on the root); continuation with getnext visits every key once when no walk is unfinished.'),
 C('C05', 'inductive step from every chain layout of n<=3(4) nodes over range<=3(4), hash stubbed by a solver-chosen table over all key bytes; SAT',
   'put/putstr/putint/get*/remove/clear/size/getnext from every valid table state within the bound with all collision patterns (the hash is an arbitrary function of the key bytes) behave as an ideal map; walk returns every key once.'),
 C('C06', 'inductive step from EVERY well-formed slot-graph layout (driver-enumerated) of a heap region of M slots with knobs scaled by the guarded hook; home slot/key class/value size per-query constants, key and value bytes symbolic; independent image reader; SAT',
   'put/get/remove/remove-by-index/walk/clear/size from every well-formed image within the capacity bound act as an ideal bounded map with exact key and used-slot counters; put succeeds iff a slot is free and the value fits into free + released slots, else ENOBUFS with other keys untouched. Scaled knobs (2/3) move every boundary into reach; production-size blocks are outside the claim.'),
 C('C07', 'the C06 step queries with pointer/bounds checks on an exactly sized region, independent well-formedness checker after every operation, region copied to a second address with a second handle; constructor boundary queries; SAT',
   'Nothing outside the region is touched, the image stays well-formed after every (also failed) operation, and a handle attached to a byte copy at another address observes the same keys, values and counters; constructor capacity computation and zeroing for region sizes around every boundary.'),
 C('C08', 'inductive step from every list of n<=3(4) entries under each of the 16 option combinations (per-query constants), names/values symbolic, hash stubbed; save/load through an in-memory file; SAT',
   'put/get/getmulti/walks/remove/removeobj/sort/size/clear from every list state within the bound behave as an ideal ordered multimap under all 16 option combinations; save then load reproduces entries in order and reports their number.'),
 C('C09', 'inductive step from every well-formed list of n<=4(5) nodes, index over the whole int range; queue/stack/grow on top; printf-style qgrow_addstrf with a vsnprintf("%s") model and argument lengths derived from the source constants; SAT',
   'Every list operation from every well-formed list within the bound with any int index acts as on an ideal sequence; refused calls change nothing; queue FIFO, stack LIFO, grow buffer concatenation.'),
 C('C10', 'inductive step from every vector state with capacity<=3(5), element sizes {1,3,...}, index over the whole int range; SAT',
   'Every vector operation from every valid state within the capacity bound acts as on an ideal array under each growth policy; resize to any capacity incl. zero keeps the vector usable.'),
 C('C11', 'the one-step queries of the containers re-run with pointer/bounds/overflow checks, memcpy-overlap precondition and leak ledger; SAT',
   'No out-of-object access, use after free, overlapping memcpy, signed overflow or leak on any path of any one-step query of tree table, hash table, list family, vector within their bounds (static hash table and list table: see not-applicable/pending notes).'),
 C('C12', 'per entry point: caller buffers scribbled+freed before read-back, returned copies checked with __CPROVER_same_object and after container release; SAT',
   'Containers keep private copies and hand out independent copies, for every entry point of the covered containers and all byte contents within the bounds.'),
 C('C13', 'interleaving injection: single-threaded harness, lock model with scheduling hook, the schedule point of the second thread\'s whole call is a solver variable; outcomes compared with both sequential orders on an ideal model; memory-safety preconditions (memcpy/free) inside an interleaving owned by this check; SAT',
   'For two overlapping calls (one per logical thread) on a thread-safe vector, list, list table, hash table or tree table, results and final contents equal one of the two sequential orders for every scheduling point at lock-boundary granularity and every argument. The lock primitive (Q_MUTEX_ENTER/LEAVE) is checked contended in isolation: a thread leaves ENTER only as owner, the forced unlock never releases another thread\'s hold (spin bound scaled by a guarded hook). More threads/calls, walks under the lock and memory-model effects are outside the claim.'),
 C('C14', 'every public function on a thread-safe container (and the rotating logger qlog.c) under a counting lock model with an allocation failure at each position; an unlock without a matching lock is itself an assertion failure (= entering with the lock held and returning one level lower); SAT',
   'The lock depth after each call equals the depth before it on every path reachable by arguments, state or allocation failure within the bounds.'),
 C('C15', 'allocation-failure position enumerated by the driver (1st..3rd, all-from-k), everything else symbolic; failure => state equals pre-state ghost; SAT',
   'For every covered operation and failure position the call either succeeds with the ideal effect or reports failure with contents unchanged, invariant intact, nothing leaked.'),
 C('C16', 'per (codec, length) all bytes symbolic vs RFC references; query round trip through the real parser; SAT',
   'Round trip, exact output format and decoder leniency for all payloads up to the length bound.'),
 C('C17', 'decoders and query parser on arbitrary NUL-terminated input in exactly sized heap buffers with pointer checks and unwinding assertions; SAT',
   'Memory safety and termination of the in-place decoders for every input up to the length bound (parsers: see evidence for the families covered).'),
 C('C18', 'per (algorithm, length) all bytes symbolic vs independent references through cbmc --z3; MD5 compositional (compression function for arbitrary state/block + padding logic with the compression function abstracted); SMT lemmas for the FNV primes',
   'qlibc hashes equal their published algorithms for every input of every length up to the bound; reads stay inside the buffer; file digest covers exactly the requested byte range.'),
 C('C19', 'per (function, lengths) all bytes symbolic vs reference specifications written from the documentation, pointer checks on exactly sized buffers; SAT',
   'Each covered string routine equals its reference for every input up to the length bound and never writes outside its buffers.'),
 C('C20', 'print->parse round trip: structured symbolic document (Apache: line templates with symbolic names/argument bytes/quoting/padding/option table/flags; INI: driver-enumerated finite family executed by the symbolic executor), expected callback stream / entry list computed from the structure; SAT',
   'Apache parser: exactly the written directives reach the callbacks in order with unquoted arguments, level, parent chain, section masks, booleans normalised, accept/reject per declarations, count and error line. INI parser: entries, sections, comments and ${} / ${%ENV} substitution for every document of the enumerated family (weaker: concrete texts, see DESIGN.md section 10).'),
]
_claimed = set(c['id'] for c in CHECKS)
_PENDING = {
 'C06': 'static hash table step queries are being brought to a verdict (see DESIGN.md section C06); not claimed in this revision',
 'C07': 'depends on the C06 queries; not claimed in this revision',
 'C08': 'list table family under construction; not claimed in this revision',
 'C13': 'interleaving-injection harness not built yet in this revision',
 'C20': 'parser families under construction; not claimed in this revision',
}
NOT_APPLICABLE = [NA(i, r) for i, r in sorted(_PENDING.items()) if i not in _claimed]
