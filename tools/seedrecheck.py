#!/usr/bin/env python3
"""seedrecheck.py <seed-id> [--props C01,C11] [--tier quick] [--only RE]: re-run checks against seeded/<seed-id>/patch.diff applied to a
COPY of /repo's src+include (VERIF_REPO), outputs under /tmp/seedrun (VERIF_OUT); updates meta.json 'detection' unless --only is given."""
import json, os, shutil, subprocess, sys, time
V = os.path.dirname(os.path.dirname(os.path.abspath(__file__)))


def sh(cmd, cwd=None, timeout=7200, env=None):
    try:
        p = subprocess.run(cmd, shell=True, cwd=cwd, stdout=subprocess.PIPE, stderr=subprocess.STDOUT, timeout=timeout, env=env)
        return p.returncode, p.stdout.decode('utf-8', 'replace')
    except subprocess.TimeoutExpired as e:
        return 124, (e.stdout or b'').decode('utf-8', 'replace') + '\n[timeout]'


def main():
    sid = sys.argv[1]
    pid = sid.split('-')[0]
    props = [pid]
    if '--props' in sys.argv:
        props = sys.argv[sys.argv.index('--props') + 1].split(',')
    tier = sys.argv[sys.argv.index('--tier') + 1] if '--tier' in sys.argv else 'quick'
    only = sys.argv[sys.argv.index('--only') + 1] if '--only' in sys.argv else None
    sd = '%s/seeded/%s' % (V, sid)
    mf = sd + '/meta.json'
    rec = json.load(open(mf)) if os.path.exists(mf) else {'seed': sid, 'property': pid, 'ran': []}
    run = '/tmp/seedrun/%s' % sid
    shutil.rmtree(run, ignore_errors=True)
    os.makedirs(run + '/repo')
    sh('cp -r /repo/src /repo/include %s/repo/' % run)
    rc, o = sh('patch -p1 -s < %s/patch.diff' % sd, cwd=run + '/repo')
    if rc != 0:
        print('patch does not apply to current /repo:', o[-400:])
        return 2
    det = rec.get('detection', {})
    for p in props:
        env = dict(os.environ, VERIF_REPO=run + '/repo', VERIF_OUT=run, VERIF_JOBS=os.environ.get('VERIF_JOBS', '8'))
        t0 = time.time()
        rc, o = sh('./vcheck %s --tier %s %s' % (p, tier, ("--only '%s'" % only) if only else ''), cwd=V, env=env)
        lines = [l for l in o.splitlines() if l.startswith(('VIOLATION', p + ' ' + tier, 'BROKEN', 'INCONCLUSIVE', 'ENCODING', 'KNOWN'))]
        d = {'rc': rc, 'violations': sum(1 for l in lines if l.startswith('VIOLATION')), 'summary': [l for l in lines if not l.startswith('VIOLATION')][:4],
             'first': [l for l in lines if l.startswith('VIOLATION')][:3], 'wall_s': round(time.time() - t0)}
        print(p, json.dumps(d, indent=1))
        if only:
            rec.setdefault('detection_targeted', {})[p] = dict(d, only=only, note='re-run after the checks were strengthened, restricted to the case ids matching `only`')
            rec.setdefault('ran', []).append("VERIF_REPO=<patched copy of /repo> ./vcheck %s --tier %s --only '%s' -> rc=%d, %d VIOLATION lines" % (p, tier, only, rc, d['violations']))
            continue
        det[p] = d
        rec.setdefault('ran', []).append('VERIF_REPO=<patched copy of /repo> ./vcheck %s --tier %s -> rc=%d, %d VIOLATION lines' % (p, tier, rc, d['violations']))
    if not only:
        rec['detection'] = det
    allv = dict(rec.get('detection', {}))
    hits = set(p for p in allv if allv[p]['rc'] == 1 and allv[p]['violations'] > 0)
    hits |= set(p for p, v in rec.get('detection_targeted', {}).items() if v['rc'] == 1 and v['violations'] > 0)
    rec['detected_by'] = sorted(hits)
    json.dump(rec, open(mf, 'w'), indent=1)
    shutil.rmtree(run, ignore_errors=True)
    return 0


if __name__ == '__main__':
    sys.exit(main())
