from ..fam import hashtbl


from ..fam import history


def cases(tier):
    from ..fam import strf
    return history.map_cases(tier, 4) + hashtbl.cases(tier, 'func') + strf.cases(tier, 'C05')


def meta(tier):
    i = hashtbl.info(tier)
    return {'level': 'model_checking', 'bounds': i['bounds'],
            'outside': ['ranges and key counts above the bound (the code is uniform in the range: one modulo and one slot array)', 'keys longer than 2 bytes, values longer than 3 bytes (putint: more than 4 digits)',
                        'putstrf: only the buffer management around vsnprintf with the format "%s" (strf queries); formatting itself is outside', 'the real murmur3 hash (C18); here the hash is an arbitrary function of the key',
                        'three-call histories through the public API (every triple of put/get/remove/size/clear, symbolic keys out of four and values) complement the one-step queries', 'histories are covered through the inductive argument only: base (constructor) + one step from every valid state within the bound'],
            'stubs': i['stubs'],
            'assumptions': [i['prestate'], 'malloc does not fail here (C15 covers failure)'],
            'explanation': 'Inductive step by bounded symbolic execution of the real qhashtbl.c: pre-state = every valid table for a fixed range and fixed chain lengths (all distributions enumerated by the driver; key names, lengths, values, sizes '
                           'and the hash function itself symbolic, so every collision pattern and every chain position of the operation key is decided by the solver), one API call with symbolic key/value/flags, '
                           'post = an independent walker proves table == ideal map (count, num, slot of hash, no duplicate keys, bytes and lengths) and a universally quantified probe key is read back through the real get(); '
                           'a complete getnext walk returns each key exactly once with its value and then ENOENT; constructor base case. Together they cover operation histories of any length inside the bound.'}
