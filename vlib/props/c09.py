from ..fam import list as listfam


from ..fam import history
from ..fam import strf


def cases(tier):
    return history.cases(tier, 2) + listfam.cases(tier, 'func') + strf.cases(tier, 'C09')


def meta(tier):
    i = listfam.info(tier)
    return {'level': 'model_checking', 'bounds': i['bounds'],
            'outside': ['lists longer than the bound', 'element sizes not listed', 'qgrow_addstrf: only the buffer management around vsnprintf with the format "%s" (strf queries, first buffer scaled to 8 bytes by the guarded hook); formatting itself and the *_debug printers (stdio output) are outside',
                        'three-call histories through the public API (every triple of operation kinds, symbolic arguments) in addition to the inductive argument: base (constructors) + one step from every well-formed state within the bound'],
            'stubs': i['stubs'],
            'assumptions': [i['prestate'], 'malloc does not fail here (C15 covers failure)', 'single logical thread (C13 covers interleavings)'],
            'explanation': 'Inductive step by bounded symbolic execution of the real qlist.c / qqueue.c / qstack.c / qgrow.c: pre-state = every well-formed doubly linked list with a fixed node count '
                           '(element sizes, bytes and the size limit symbolic), one API call with symbolic index over the whole int range, element bytes and flags; post = equality with an ideal sequence of byte strings '
                           'kept by the harness (exact position incl. negative indexes, refusal => unchanged + documented errno, size()/datasize() exact) and a well-formedness checker '
                           '(links mirror each other, num = node count, datasum = sum of sizes) after every call; constructor base cases. Queue/stack/grow queries check FIFO/LIFO/concatenation '
                           'against the same ideal sequence, plus a push-push-drain history.'}
