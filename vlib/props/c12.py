from . import _agg


def cases(tier):
    return _agg.cases(tier, 'copy')


def meta(tier):
    return _agg.meta(tier, 'copy',
                     'Per insertion entry point: the caller\'s key/value live in exactly sized heap objects that are overwritten and freed right after the call; the container contents snapshot taken before the scribble must be unchanged. '
                     'Per copying accessor: result is a different object than any internal one (__CPROVER_same_object), equals the stored bytes with exact length, and stays intact after the container is released (pointer checks on).')
