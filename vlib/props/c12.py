from ..engine import Case
from . import c10


def cases(tier):
    out = []
    out += c10.vec_cases(tier, prefix='c12', checks='safety', ops=['ADD', 'SET', 'GET', 'POP', 'TOARRAY', 'WALK'], sizes=[1, 3], maxes=[1, 2], safety_owner='C11', timeout=600)
    return out


def meta(tier):
    return {'level': 'model_checking', 'bounds': 'wip', 'explanation': 'wip'}
