from ..fam import listtbl


from ..fam import history


def cases(tier):
    from ..fam import strf
    return history.map_cases(tier, 3) + listtbl.cases(tier, 'func') + strf.cases(tier, 'C08')


def meta(tier):
    i = listtbl.info(tier)
    return {'level': 'model_checking', 'bounds': i['bounds'],
            'outside': ['tables with more entries than the bound; names longer than 2 characters or outside {a,A,b}; values longer than 2 bytes (3 for strings)',
                        'putstrf(): only the buffer management around vsnprintf with the format "%s" (strf queries); formatting itself and debug() (FILE output) are outside',
                        'save/load: names containing the separator, blanks or "#" (the save format does not encode names), encode=false, separators other than "="',
                        'three-call histories through the public API (every triple of put/get/remove/size/clear, symbolic keys out of four and values) complement the one-step queries', 'histories are covered through the inductive argument only: base (constructor) + one step from every valid state within the bound, for each of the 16 option combinations'],
            'stubs': i['stubs'],
            'assumptions': [i['prestate'], 'malloc does not fail here (C15 covers failure)',
                            'getint is applied to NUL-terminated values only (it reads the value as a C string)'],
            'explanation': 'Inductive step by bounded symbolic execution of the real qlisttbl.c: pre-state = every valid list of n nodes (names incl. case pairs and duplicates, values, hash function symbolic) for one of the 16 option '
                           'combinations, one API call with symbolic arguments, post = element-wise equality of the whole list (links, first/last/num, names, values, sizes, hashes) with an ideal ordered multimap kept by the harness: '
                           'put/putstr/putint (bottom/top, UNIQUE drops all equal keys), get/getstr/getint (first match in lookup direction, copy flag), getmulti (all matches in lookup order, count, terminator), getnext walks '
                           '(unfiltered and name-filtered), remove (count, all gone), removeobj of any subset of visited entries during a walk, size, clear, sort (stable ascending permutation), lock/unlock; '
                           'save followed by load over an in-memory file (entries in order, number of entries returned); constructor base case.'}
