from ..fam import tree


def cases(tier):
    return tree.walk_cases(tier)


def meta(tier):
    i = tree.info(tier)
    return {'level': 'model_checking', 'bounds': 'every valid LLRB shape with <= %d nodes; walk-after-modification variant <= %d nodes' % ((5, 3) if tier == 'quick' else (7, 5)),
            'stubs': i['stubs'],
            'assumptions': ['pre-state: any valid tree; table epoch tbl->tid ARBITRARY (0..255), every node stamp arbitrary subject to the representation invariant "no stamp exceeds the table epoch" (established by the constructor, '
                            'asserted to be preserved by walks and by put/remove), every node\'s next link arbitrary (NULL or any node, including the root\'s) - this over-approximates every history of walks, abandoned walks, searches, inserts and deletes, including more than 256 traversal starts'],
            'outside': ['trees larger than the bound', 'walks during which the table is modified'],
            'explanation': 'History dependence of the traversal lives in three fields (table epoch, node stamps, parent links); they are made arbitrary instead of exploring histories. From every such state two complete getnext walks from a zeroed cursor '
                           'must each return exactly the in-order key sequence with current values and then end (unwinding assertions = termination), also after an abandoned walk followed by one put/remove.'}
