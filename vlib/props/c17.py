from ..engine import Case
from .c16 import CODECS, FUNCS


def dec_cases(tier):
    out = []
    maxn = 6 if tier == 'quick' else 12
    for codec in ('URL', 'B64', 'HEX'):
        for n in range(0, maxn + 1):
            out.append(Case('c17.dec.%s.n%d' % (codec, n), 'enc.c', {'VF_CODEC': CODECS[codec], 'VF_N': n, 'VF_MODE': 2},
                            unwind=n + 3, checks='safety', funcs=[f for f in FUNCS[codec] if 'decode' in f or 'x2c' in f], timeout=600,
                            safety_owner='C17', unwind_owner='C17',
                            desc='%s in-place decoder on an arbitrary NUL-terminated %d-byte input in an exactly sized heap buffer' % (codec, n)))
    return out


def cases(tier):
    out = dec_cases(tier)
    return out


def meta(tier):
    return {'level': 'model_checking',
            'bounds': 'decoders: every input of length 0..%d, all bytes symbolic' % (6 if tier == 'quick' else 12),
            'outside': ['inputs longer than the bound'],
            'stubs': ['CBMC built-in malloc/free models'],
            'assumptions': ['malloc does not fail'],
            'explanation': 'Bounded symbolic execution with pointer/bounds checks: input lives in an exactly sized heap object; unwinding assertions prove termination within n+2 iterations.'}
