import importlib
from ..engine import Case
from .c16 import CODECS, FUNCS


def dec_cases(tier):
    out = []
    maxn = 6 if tier == 'quick' else 12
    for codec in ('URL', 'B64', 'HEX'):
        for n in range(0, maxn + 1):
            out.append(Case('c17.dec.%s.n%d' % (codec, n), 'enc.c', {'VF_CODEC': CODECS[codec], 'VF_N': n, 'VF_MODE': 2},
                            unwind=n + 3, checks='safety', funcs=[f for f in FUNCS[codec] if 'decode' in f or 'x2c' in f], timeout=600,
                            safety_owner='C17', unwind_owner='C17',
                            desc='%s in-place decoder on an arbitrary NUL-terminated %d-byte input in an exactly sized heap buffer' % (codec, n)))
    return out


def _fams():
    out = []
    for name in ('aconf', 'ini'):
        try:
            out.append(importlib.import_module('vlib.fam.' + name))
        except ImportError:
            pass
    return out


def cases(tier):
    from . import c16q
    out = dec_cases(tier)
    out += c16q.c17_cases(tier)
    for m in _fams():
        out += m.cases(tier, 'c17')
    return out


def meta(tier):
    from . import c16q
    infos = [m.info(tier) for m in _fams()]
    b = {'decoders (URL, Base64, hex)': 'every input of length 0..%d, all bytes symbolic, exactly sized heap buffer' % (6 if tier == 'quick' else 12)}
    try:
        b['query parser'] = c16q.info(tier)
    except Exception:
        pass
    for i in infos:
        b[i['container']] = i['bounds']
    return {'level': 'model_checking', 'bounds': b,
            'outside': ['inputs longer than / outside the stated families', 'coverage-guided mutation (another technique family)', 'Apache parser lines >= the reduced line buffer (QLIBC_VERIF_MAX_LINESIZE hook)'],
            'stubs': sorted(set(['CBMC built-in malloc/free models'] + sum([i['stubs'] for i in infos], []))),
            'assumptions': ['malloc does not fail'] + [i['container'] + ': ' + i['prestate'] for i in infos],
            'explanation': 'Bounded symbolic execution with pointer/bounds checks: the input lives in an exactly sized heap object, unwinding assertions prove termination within the stated bounds (an unwinding failure is replayed natively under a watchdog). '
                           'Decoders and query parser: all input bytes symbolic per length. Apache parser: line templates with symbolic word bytes. INI parser: see its bounds entry (driver-enumerated finite families executed by the symbolic executor).'}
