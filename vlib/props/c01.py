from ..fam import tree


def cases(tier):
    from ..fam import strf
    return tree.cases(tier, 'func') + strf.cases(tier, 'C01')


def meta(tier):
    i = tree.info(tier)
    return {'level': 'model_checking', 'bounds': i['bounds'], 'stubs': i['stubs'], 'assumptions': [i['prestate'], 'malloc does not fail here (C15 covers failure)', 'zero-length values are outside the claim'],
            'outside': ['trees larger than the bound', 'keys longer than 2 bytes, values longer than 3', 'putstrf: only the buffer management around vsnprintf with the format "%s" (strf queries); formatting itself is outside', 'zero-length values'],
            'explanation': 'Inductive step on the real qtreetbl.c: for every valid LLRB (shape, colouring) up to the node bound (driver-enumerated, proof by cases) one put/remove/get/min/max/size/clear with symbolic key (every present key and every gap), '
                           'symbolic values and key second bytes; post-state compared with an ideal sorted map through an independent in-order walker, for the default byte-wise comparator, a user comparator and a reversed user comparator, binary and string key APIs.'}
