from ..engine import Case
from . import c10


def cases(tier):
    out = []
    out += c10.vec_cases(tier, prefix='c11', checks='safety', leak=True, sizes=[1, 3] if tier == 'quick' else [1, 2, 3, 8], maxes=[0, 1, 3] if tier == 'quick' else [0, 1, 2, 3, 4], timeout=600)
    return out


def meta(tier):
    return {'level': 'model_checking', 'bounds': 'wip', 'explanation': 'wip'}
