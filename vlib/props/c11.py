from . import _agg


def cases(tier):
    return _agg.cases(tier, 'safety')


def meta(tier):
    return _agg.meta(tier, 'safety',
                     'The one-step queries of C01-C10 re-run with CBMC pointer/bounds/overflow/shift/division checks, the memcpy-overlap precondition, free() validity and --memory-leak-check; '
                     'each harness ends by releasing the container and asserting the allocation ledger is back to its base, so a pass means: for every pre-state and argument within the bound no out-of-object access, '
                     'no use after free, no overlapping memcpy, no leak.',
                     outside=['whatever is outside the bounds of C01-C10', 'pointer-overflow UB that forms but never dereferences an out-of-bounds pointer (no sanitizer confirms that class)'])
