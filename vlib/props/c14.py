from . import _agg


def cases(tier):
    return _agg.cases(tier, 'lock')


def meta(tier):
    return _agg.meta(tier, 'lock',
                     'Every public operation is called on a thread-safe container from any small valid state with fully symbolic arguments and with an allocation failure injected at each position (constant per query); '
                     'the lock model counts trylock/unlock: the depth after the call must equal the depth before it on every path the solver can reach.',
                     extra_assumptions=['pthread_mutex_trylock/unlock are replaced by the counting model of stubs.h (recursive-mutex semantics, unlock by non-owner is EPERM and changes nothing)'])
