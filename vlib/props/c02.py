from ..fam import tree


def cases(tier):
    return tree.shape_cases(tier)


def meta(tier):
    i = tree.info(tier)
    return {'level': 'model_checking', 'bounds': i['bounds'], 'stubs': i['stubs'], 'assumptions': [i['prestate']],
            'outside': ['trees larger than the bound (rotations are local to three levels - an argument, not a proof)'],
            'explanation': 'Invariant closure: for every valid LLRB (shape, colouring) up to the bound and every put/remove key (present, absent, every gap) the post-state passes an independent iterative LLRB checker '
                           '(black root, no red-red, equal black depth of all NULL links, no right-leaning lone red) and the library\'s qtreetbl_check(); lookups through a counting user comparator never exceed floor(2*log2(n+1)) comparisons.'}
