from ..fam import hasharr


def cases(tier):
    return hasharr.cases(tier, 'c07')


def meta(tier):
    i = hasharr.info(tier)
    return {'level': 'model_checking', 'bounds': i['bounds'] + '; constructor: region sizes around every boundary with scaled and with production knobs',
            'stubs': i['stubs'], 'assumptions': [i['prestate'], 'the user region is one exactly sized heap object (typed as header + M slots); alignment is not modelled by CBMC'],
            'outside': ['capacities above the bound', 'real mmap/shm mappings (qshm.c)', 'alignment'],
            'explanation': 'The C06 step queries re-run with pointer/bounds checks on a region that is exactly header + M slots (any access outside it fails), with the independent well-formedness checker asserted after every operation including failed ones; '
                           'GET queries additionally copy the region byte for byte to a second heap object, attach a second handle (memsize 0) and require identical results, counters and a well-formed image; constructor queries check capacity computation, zeroing and rejection of too-small regions.'}
