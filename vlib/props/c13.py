from ..engine import Case

OPS = {'ADDLAST': 1, 'ADDFIRST': 2, 'ADDAT': 3, 'POPFIRST': 4, 'POPLAST': 5, 'REMOVEAT': 6, 'GETAT': 7, 'SETAT': 8, 'CLEAR': 9, 'TOARRAY': 10, 'SIZE': 11, 'TOSTRING': 12, 'WALKLOCKED': 13}
VEC_PAIRS = [('ADDLAST', 'POPFIRST'), ('ADDLAST', 'ADDLAST'), ('ADDLAST', 'CLEAR'), ('ADDAT', 'REMOVEAT'), ('ADDAT', 'ADDAT'), ('ADDFIRST', 'POPLAST'), ('TOARRAY', 'POPFIRST'), ('TOARRAY', 'CLEAR'),
             ('TOARRAY', 'ADDLAST'), ('GETAT', 'SETAT'), ('GETAT', 'REMOVEAT'), ('POPFIRST', 'POPFIRST'), ('POPLAST', 'ADDLAST'), ('REMOVEAT', 'REMOVEAT'), ('SETAT', 'REMOVEAT'), ('CLEAR', 'ADDLAST'), ('WALKLOCKED', 'ADDFIRST'), ('WALKLOCKED', 'POPFIRST'), ('WALKLOCKED', 'CLEAR')]
LIST_PAIRS = [('ADDLAST', 'POPFIRST'), ('ADDLAST', 'ADDLAST'), ('ADDLAST', 'CLEAR'), ('ADDAT', 'REMOVEAT'), ('ADDAT', 'ADDAT'), ('ADDFIRST', 'POPLAST'), ('TOARRAY', 'POPFIRST'), ('TOARRAY', 'CLEAR'),
              ('TOARRAY', 'ADDLAST'), ('TOSTRING', 'POPFIRST'), ('TOSTRING', 'ADDLAST'), ('TOSTRING', 'CLEAR'), ('GETAT', 'REMOVEAT'), ('POPFIRST', 'POPFIRST'), ('POPLAST', 'ADDLAST'), ('REMOVEAT', 'REMOVEAT'), ('CLEAR', 'ADDLAST'), ('WALKLOCKED', 'ADDFIRST'), ('WALKLOCKED', 'POPFIRST'), ('WALKLOCKED', 'CLEAR')]
FUNCS = {1: ['qvector_addat', 'qvector_addlast', 'qvector_addfirst', 'qvector_popat', 'qvector_removeat', 'qvector_getat', 'qvector_setat', 'qvector_clear', 'qvector_toarray', 'qvector_getnext', 'qvector_lock', 'qvector_unlock', 'Q_MUTEX_ENTER', 'Q_MUTEX_LEAVE'],
         2: ['qlist_addat', 'qlist_addlast', 'qlist_addfirst', 'qlist_popat', 'qlist_removeat', 'qlist_getat', 'qlist_clear', 'qlist_toarray', 'qlist_tostring', 'qlist_getnext', 'qlist_lock', 'qlist_unlock', 'Q_MUTEX_ENTER', 'Q_MUTEX_LEAVE']}


def cases(tier):
    out = []
    ns = [0, 1, 2] if tier == 'quick' else [0, 1, 2, 3]
    for cont, name, pairs in ((1, 'vector', VEC_PAIRS), (2, 'list', LIST_PAIRS)):
        for (a, b) in pairs:
            for n0 in ns:
                for (x, y) in ((a, b), (b, a)) if a != b else ((a, b),):
                    out.append(Case('c13.%s.%s_%s.n%d' % (name, x, y, n0), 'sched.c', {'VF_CONT': cont, 'VF_OP1': OPS[x], 'VF_OP2': OPS[y], 'VF_N0': n0}, unwind=n0 + 6, checks='func',
                                    timeout=600, funcs=FUNCS[cont], desc='%s: T1=%s overlapped by T2=%s at a solver-chosen scheduling point, %d initial elements; arguments symbolic' % (name, x, y, n0)))
    # bounded thread-safe list, full or one below full: refused additions (ENOBUFS) overlapped by removals/additions
    for (a, b) in (('ADDLAST', 'POPFIRST'), ('ADDLAST', 'ADDLAST'), ('ADDAT', 'REMOVEAT'), ('ADDFIRST', 'CLEAR')):
        for (n0, mx) in ((2, 2), (1, 2)):
            for (x, y) in ((a, b), (b, a)) if a != b else ((a, b),):
                out.append(Case('c13.list.%s_%s.n%d.max%d' % (x, y, n0, mx), 'sched.c', {'VF_CONT': 2, 'VF_OP1': OPS[x], 'VF_OP2': OPS[y], 'VF_N0': n0, 'VF_MAXSZ': mx}, unwind=n0 + 6, checks='func',
                                timeout=600, funcs=FUNCS[2], desc='bounded list (limit %d, %d elements): T1=%s overlapped by T2=%s at a solver-chosen scheduling point; arguments symbolic' % (mx, n0, x, y)))
    MOPS = {'PUT': 1, 'GET': 2, 'REMOVE': 3, 'SIZE': 4, 'CLEAR': 5}
    MPAIRS = [('PUT', 'GET'), ('PUT', 'PUT'), ('PUT', 'REMOVE'), ('PUT', 'SIZE'), ('PUT', 'CLEAR'), ('REMOVE', 'GET'), ('REMOVE', 'REMOVE'), ('CLEAR', 'GET')]
    MF = {3: ['qlisttbl_put', 'qlisttbl_putstr', 'qlisttbl_getstr', 'qlisttbl_remove', 'qlisttbl_getnext', 'qlisttbl_clear', 'qlisttbl_lock', 'qlisttbl_unlock'],
          4: ['qhashtbl_put', 'qhashtbl_getstr', 'qhashtbl_remove', 'qhashtbl_clear', 'qhashtbl_lock', 'qhashtbl_unlock'],
          5: ['qtreetbl_putobj', 'qtreetbl_getobj', 'qtreetbl_removeobj', 'qtreetbl_clear', 'qtreetbl_lock', 'qtreetbl_unlock']}
    for cont, name in ((3, 'listtbl'), (4, 'hashtbl'), (5, 'tree')):
        for (a, b) in MPAIRS:
            for n0 in ((1,) if (cont == 5 and tier == 'quick') else (1, 2)):
                for (x, y) in ((a, b), (b, a)) if a != b else ((a, b),):
                    if cont == 5 and tier == 'quick' and (x, y) in (('REMOVE', 'REMOVE'), ('PUT', 'REMOVE'), ('REMOVE', 'PUT')):
                        continue   # a removal from a tree that the other call has just restructured symbolically: 160 s .. no verdict in 600 s per scheduling point: thorough tier
                    if cont == 5:
                        # tree: scheduling point constant per query (one symbolic restructuring by T2 per query instead of one per point)
                        for sp in (0, 1, 2, 3, 4, 99):
                            out.append(Case('c13.%s.%s_%s.n%d.s%d' % (name, x, y, n0, sp), 'schedmap.c', {'VF_CONT': cont, 'VF_OP1': MOPS[x], 'VF_OP2': MOPS[y], 'VF_N0': n0, 'VF_SCHED': sp}, unwind=8,
                                            unwindset={'put_obj': 4, 'remove_obj': 4, 'remove_min': 4, 'free_objs': 4}, checks='func', timeout=600 if tier == 'quick' else 2400, funcs=MF[cont], object_bits=10,
                                            desc='%s: T1=%s overlapped by T2=%s at scheduling point %d (0 before, k = k-th outermost lock acquire/release of T1, 99 after), %d initial keys; keys/values symbolic' % (name, x, y, sp, n0)))
                        continue
                    out.append(Case('c13.%s.%s_%s.n%d' % (name, x, y, n0), 'schedmap.c', {'VF_CONT': cont, 'VF_OP1': MOPS[x], 'VF_OP2': MOPS[y], 'VF_N0': n0}, unwind=8,
                                    unwindset={'put_obj': 4, 'remove_obj': 4, 'remove_min': 4, 'free_objs': 4}, checks='func', timeout=600 if tier == 'quick' else 1800, funcs=MF[cont],
                                    desc='%s: T1=%s overlapped by T2=%s at a solver-chosen scheduling point, %d initial keys; keys/values symbolic' % (name, x, y, n0)))
    # the lock primitive itself, contended (the container queries above model a trylock that always succeeds)
    for w in ((3,) if tier == 'quick' else (3, 40)):
        out.append(Case('c13.mx.contended.w%d' % w, 'mutex.c', {'QLIBC_VERIF_MAX_MUTEX_LOCK_WAIT': w}, unwind=w + 3, checks='func', timeout=600, funcs=['Q_MUTEX_NEW', 'Q_MUTEX_ENTER', 'Q_MUTEX_LEAVE', 'Q_MUTEX_DESTROY'], unwind_owner='C13',
                        desc='Q_MUTEX_ENTER/LEAVE with the mutex held by another logical thread at depth 0..2 that lets go after a solver-chosen number (0..2*WAIT+1) of failed attempts; spin bound scaled to %d by the guarded hook; 1..3 nested enters' % w))
    for c in out:
        # a call that returns with the container lock still held blocks the other thread for ever: no one-at-a-time ordering explains a call
        # that never returns, so the lock-balance assertion of the interleaving harnesses is C13's obligation as well as C14's
        c.co_owned = r'^C14\.(sched|seq)\.lock\b'
        # a memory-safety failure inside an interleaving query (e.g. CBMC's memcpy/free preconditions: a value copied after the lock was released while the
        # other thread frees it) has no sequential explanation either - the same calls one at a time are memory-safe (C11): C13 owns it here
        c.safety_owner = 'C13'
    return out


def meta(tier):
    return {'level': 'model_checking',
            'bounds': 'two logical threads, one call each; vector and list with 0..%d initial one-byte elements, list table (UNIQUE), hash table (range 2) and tree table with 1..2 initial keys out of {a,b}; T2 injected at any outermost lock acquisition/release of T1 (or before/after; for the tree table the scheduling point is a per-query constant 0,1..4,99); indexes over the whole int range' % (2 if tier == 'quick' else 3),
            'outside': ['more than two threads / more than one call per thread', 'Q_MUTEX_ENTER is checked with MAX_MUTEX_LOCK_WAIT scaled from 5000 to 3 (thorough: 40) by the guarded hook (5000: no verdict in 20 min); the macro uses the constant only as the spin bound', 'map containers: only putstr/getstr(copy)/remove/size/clear over two keys; walks under the container lock are not encoded',
                        'randomised long stress schedules on a race-detecting build; data races without an observable non-linearizable outcome; memory-model effects', 'interleavings INSIDE a critical section (excluded by mutual exclusion, which is assumed from pthread)'],
            'stubs': ['lock model of stubs.h with scheduling hook (trylock always succeeds for the running logical thread; T2 runs only when T1 holds no lock)', 'allocator shim (never fails)'],
            'assumptions': ['pthread mutual exclusion works: no second thread runs inside another thread\'s critical section', 'the pre-state is built through the public API (n appends)'],
            'explanation': 'Interleaving injection: the schedule is a solver variable choosing at which outermost lock acquire/release of T1\'s call the whole of T2\'s call runs; results and final contents must equal one of the two sequential orders computed on an ideal sequence. '
                           'This covers every interleaving of two calls at the granularity of lock boundaries plus the accesses made outside the lock. '
                           'Lock-discipline monitor: while T1 is outside its critical sections the structural pointers of the container (vector data, list/list-table first+last, hash-table slot array, tree root) are hidden, '
                           'so any structural access outside the lock - a data race with another thread\'s restructuring that lock-boundary interleavings cannot expose - yields a result no sequential order explains.'}
