def cases(tier):
    return []
