"""Query-string parser qparse_queries() (harness/query.c): C16 round trip cases (cases) and C17 safety cases (c17_cases)."""
from ..engine import Case

FUNCS = ['qparse_queries', '_q_makeword', 'qstrtrim', 'qurl_decode', 'qurl_encode', '_q_x2c', 'qlisttbl', 'qlisttbl_putstr', 'qlisttbl_put', 'qlisttbl_free']


def _qlen(p, l):
    n = 3 * (l[0] + l[1]) + 1
    if p > 1:
        n += 2 + 3 * (l[2] + l[3])
    return n


def cases(tier):
    """C16: query string assembled from 1..2 (name, value) pairs, name/value lengths 0..2 (per-query constants), every byte symbolic non-NUL and
    rendered by the real qurl_encode(); parsed entries == pairs in order, count exact."""
    out = []
    shapes = []
    for a in range(3):
        for b in range(3):
            shapes.append((1, (a, b, 0, 0)))
    for a in range(3):
        for b in range(3):
            for c in range(3):
                for d in range(3):
                    if tier == 'quick' and max(a, b, c, d) == 2 and (a, b, c, d) not in ((2, 2, 2, 2), (0, 2, 2, 0), (2, 0, 0, 2), (2, 1, 1, 2), (1, 2, 2, 1), (0, 0, 2, 2), (2, 2, 0, 0)):
                        continue  # quick: every two-pair shape with lengths 0..1, a sample of the shapes with a 2-byte field
                    shapes.append((2, (a, b, c, d)))
    for p, l in shapes:
        L = _qlen(p, l)
        out.append(Case('c16.query.p%d.l%d%d%d%d' % ((p,) + l), 'query.c',
                        {'VF_MODE': 0, 'VF_P': p, 'VF_NL0': l[0], 'VF_VL0': l[1], 'VF_NL1': l[2], 'VF_VL1': l[3]},
                        unwind=L + 3, unwindset={'qparse_queries.0': p + 2}, checks='func', funcs=FUNCS, timeout=600, mem_gb=4, safety_owner='C11',
                        desc='qparse_queries(enc(name)=enc(value)%s): name/value lengths %s, all bytes symbolic non-NUL, URL-encoded by qurl_encode; entries equal the pairs in order'
                             % ('&enc(name2)=enc(value2)' if p > 1 else '', l[:2 * p])))
    return out


def c17_cases(tier):
    """C17: qparse_queries on an arbitrary NUL-terminated string of n symbolic non-NUL bytes in an exactly sized heap buffer."""
    out = []
    maxn = 5 if tier == 'quick' else 7
    for n in range(0, maxn + 1):
        out.append(Case('c17.query.n%d' % n, 'query.c', {'VF_MODE': 1, 'VF_N': n}, unwind=n + 3, checks='safety', funcs=FUNCS,
                        timeout=600 if tier == 'quick' else 1800, mem_gb=8, object_bits=11, safety_owner='C17', unwind_owner='C17',
                        desc='qparse_queries(NULL, q, \'=\', \'&\', &count) on every NUL-terminated q of %d symbolic non-NUL bytes in an exactly sized heap buffer: terminates, no out-of-bounds access '
                             '(parser allocations are exactly sized blocks), result table well-formed, everything released' % n))
    return out


def info(tier):
    """texts for the meta() of C16 / C17 (bounds, stubs, what is outside)"""
    q = tier == 'quick'
    return {
        'c16_bounds': 'query strings: 1 pair with name/value lengths 0..2 (all 9 shapes), 2 pairs with every length in 0..%s; lengths are per-query constants, all bytes symbolic non-NUL, each rendered by the real qurl_encode()'
                      % ('1 plus 7 shapes with 2-byte fields' if q else '2 (all 81 shapes)'),
        'c17_bounds': 'qparse_queries: every NUL-terminated query of length 0..%d (all bytes symbolic non-NUL) in an exactly sized heap buffer, separators "=" and "&"' % (5 if q else 7),
        'outside': ['query strings with more than 2 pairs or fields longer than 2 bytes (C16) / longer than the bound (C17)',
                    'names or values containing NUL; un-encoded separators inside names/values (the harness always encodes through qurl_encode)',
                    'passing an existing table (tbl != NULL) or separators other than "=" and "&"'],
        'stubs': ['qhashmurmur3_32 -> table of 8 solver-chosen values indexed by a checksum of the name (the parser only stores the hash)',
                  'allocator shim stubs.h; variable-size requests inside the parser: C17 exact blocks of 1..n+1 bytes chosen by a case split in the shim, C16 blocks of the constant size len(query)+2; sizeof() requests exact'],
        'assumptions': ['malloc does not fail (allocation failure is the subject of C15)',
                        'names are trimmed by the parser before decoding; qurl_encode never emits a blank literally, so no restriction on blank-only names is needed']}
