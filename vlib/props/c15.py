from . import _agg


def cases(tier):
    return _agg.cases(tier, 'allocfail')


def meta(tier):
    return _agg.meta(tier, 'allocfail',
                     'For each operation and each allocation-failure position (1st, 2nd, 3rd allocation of the call; all-from-1st; all-from-2nd) the call either succeeds with the ideal effect or reports failure with contents equal to the pre-state ghost; '
                     'invariant, a follow-up operation, the allocation ledger after free() and pointer checks are asserted in every case.',
                     outside=['failures of allocations made inside libc (vsnprintf etc.)', 'more than the first three allocation positions of one call (all-subsequent-fail covers the rest jointly)'])
