from ..engine import Case
from . import c10


FAILS = [({'VF_FAILMASK': 1}, 'f0'), ({'VF_FAILMASK': 2}, 'f1'), ({'VF_FAILMASK': 4}, 'f2'), ({'VF_FAILMASK': 0, 'VF_FAILFROM': 0}, 'ff0'), ({'VF_FAILMASK': 0, 'VF_FAILFROM': 1}, 'ff1')]


def cases(tier):
    out = []
    for fd, fs in FAILS:
        d = {'VF_ALLOCFAIL': None}
        d.update(fd)
        out += c10.vec_cases(tier, prefix='c15.%s' % fs, extra_defs=d, sizes=[1] if tier == 'quick' else [1, 3], maxes=[0, 2] if tier == 'quick' else [0, 1, 2, 3], timeout=600)
    for fd, fs in FAILS:
        d = {'VF_TS': None, 'VF_ALLOCFAIL': None}
        d.update(fd)
        out += c10.vec_cases(tier, prefix='c15.ts.%s' % fs, extra_defs=d, ops=['CTOR'], sizes=[1, 3])
    return out


def meta(tier):
    return {'level': 'model_checking', 'bounds': 'wip', 'explanation': 'wip'}
