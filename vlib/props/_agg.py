"""Cross-cutting properties (C11, C12, C14, C15) aggregate one mode over every container family."""
import importlib

FAMILIES = ['vector', 'list', 'tree', 'hashtbl', 'listtbl', 'hasharr', 'qlog']


def fams():
    out = []
    for f in FAMILIES:
        out.append(importlib.import_module('vlib.fam.' + f))
    return out


def cases(tier, mode):
    out = []
    for m in fams():
        out += m.cases(tier, mode)
    if mode == 'safety':
        # C11 over histories = (each step is memory-safe from every state satisfying the representation invariant) + (each step
        # preserves that invariant): the invariant assertions of the functional properties are therefore also C11's obligations
        for c in out:
            c.co_owned = r'\.(wf|inv)$|\.(wf|inv)\b'
    return out


def meta(tier, mode, explanation, extra_assumptions=None, outside=None):
    infos = [m.info(tier) for m in fams()]
    return {'level': 'model_checking',
            'bounds': {i['container']: i['bounds'] for i in infos},
            'stubs': sorted(set(sum([i['stubs'] for i in infos], []))),
            'assumptions': [i['container'] + ': ' + i['prestate'] for i in infos] + (extra_assumptions or []),
            'outside': outside or ['sizes above the per-container bounds'],
            'explanation': explanation}
