"""Cross-cutting properties (C11, C12, C14, C15) aggregate one mode over every container family."""
import importlib

FAMILIES = ['vector', 'list', 'tree', 'hashtbl', 'listtbl', 'hasharr', 'qlog']


def fams():
    out = []
    for f in FAMILIES:
        out.append(importlib.import_module('vlib.fam.' + f))
    return out


def cases(tier, mode):
    out = []
    for m in fams():
        out += m.cases(tier, mode)
    if mode == 'safety':
        # C11 over histories = (each step is memory-safe from every state satisfying the representation invariant) + (each step
        # preserves that invariant): the invariant assertions of the functional properties are therefore also C11's obligations
        for c in out:
            c.co_owned = r'\.(wf|inv)$|\.(wf|inv)\b'
    if mode == 'safety':
        # "every byte it allocated has been freed, whatever happened before" includes calls that failed half-way: the allocation ledger after
        # an insertion/constructor whose 2nd or 3rd allocation fails (the 1st failing leaves nothing to leak).  Same queries as C15's, taken
        # over with C11 owning the ledger assertion (their C15.* assertions are left to C15).
        import re as _re
        seen = set()
        for m in fams():
            for c in m.cases(tier, 'allocfail'):
                if _re.search(r'\.(PUT|PUTSTR|PUTINT|ADD|PUSH|PUSHSTR|CTOR)\b', c.cid) and _re.search(r'\.(f1|f2)\.', c.cid) and (tier != 'quick' or not _re.search(r'tree\.PUT\.n[456]', c.cid)):
                    c.cid = 'c11.af.' + c.cid
                    if c.cid not in seen:
                        seen.add(c.cid)
                        out.append(c)
    if mode == 'allocfail':
        # C15: "nothing is leaked or freed twice" when an allocation fails - the allocation-ledger assertions (tagged C11.<container>.leak
        # because C11 owns them on the fault-free paths) are C15's obligations under a failure schedule; C14's own claim is the lock only
        for c in out:
            c.co_owned = r'^C11\..*\.leak\b'
    return out


def meta(tier, mode, explanation, extra_assumptions=None, outside=None):
    infos = [m.info(tier) for m in fams()]
    return {'level': 'model_checking',
            'bounds': {i['container']: i['bounds'] for i in infos},
            'stubs': sorted(set(sum([i['stubs'] for i in infos], []))),
            'assumptions': [i['container'] + ': ' + i['prestate'] for i in infos] + (extra_assumptions or []),
            'outside': outside or ['sizes above the per-container bounds'],
            'explanation': explanation}
