from ..engine import Case, SmtCase

ALGS = {'FNV32': (1, 'qhashfnv1_32'), 'FNV64': (2, 'qhashfnv1_64'), 'MUR32': (3, 'qhashmurmur3_32'), 'MUR128': (4, 'qhashmurmur3_128')}
MAXN = {'quick': {'FNV32': 24, 'FNV64': 24, 'MUR32': 40, 'MUR128': 48, 'MD5PAD': 72, 'MD5E2E': []},
        'thorough': {'FNV32': 96, 'FNV64': 96, 'MUR32': 200, 'MUR128': 160, 'MD5PAD': 200, 'MD5E2E': [1, 56, 64, 70]}}
MD5F = ['MD5Init', 'MD5Update', 'MD5Pad', 'MD5Final', 'qhashmd5']


def cases(tier):
    out = []
    mx = MAXN[tier]
    for alg, (code, fn) in ALGS.items():
        for n in range(1, mx[alg] + 1):
            out.append(Case('c18.eq.%s.n%d' % (alg, n), 'hash.c', {'VF_ALG': code, 'VF_N': n}, unwind=n + 2, checks='func', backend='z3',
                            timeout=300, funcs=[fn], desc='%s == reference for all %d-byte inputs' % (fn, n)))
            out.append(Case('c18.mem.%s.n%d' % (alg, n), 'hash.c', {'VF_ALG': code, 'VF_N': n, 'VF_NOEQ': None}, unwind=n + 2, checks='safety',
                            safety_owner='C18', timeout=300, funcs=[fn], desc='%s reads exactly the %d given bytes (exactly sized heap buffer)' % (fn, n)))
    # alignment independence: the same equalities with the message at offsets 1..7 of its heap object
    offs = {'quick': {'MUR128': [(1, 16), (4, 17), (7, 33), (3, 40)], 'MUR32': [(1, 4), (3, 9), (2, 16)], 'FNV32': [(1, 5)], 'FNV64': [(3, 9)]},
            'thorough': {a: [(o, n) for o in range(1, 8) for n in (1, 7, 16, 17, 31, 32, 33, 48)] for a in ALGS}}[tier]
    for alg, (code, fn) in ALGS.items():
        for (o, n) in offs.get(alg, []):
            out.append(Case('c18.eq.%s.n%d.off%d' % (alg, n, o), 'hash.c', {'VF_ALG': code, 'VF_N': n, 'VF_OFF': o}, unwind=n + 2, checks='func', backend='z3',
                            timeout=60, funcs=[fn], desc='%s == reference for all %d-byte inputs placed at offset %d of their heap object (address not a multiple of 8)' % (fn, n, o)))
    out.append(SmtCase('c18.lemma.fnv32prime', 'fnv32_prime.smt2', ['cvc5', 'z3'], desc='forall h: shift-add form == h * 0x01000193 mod 2^32', funcs=['qhashfnv1_32']))
    out.append(SmtCase('c18.lemma.fnv64prime', 'fnv64_prime.smt2', ['cvc5', 'cvc5 --solve-bv-as-int=sum'], desc='forall h: shift-add form == h * 0x100000001b3 mod 2^64', funcs=['qhashfnv1_64']))
    out.append(Case('c18.md5.transform', 'md5.c', {'VF_MODE': 1}, unwind=66, checks='func', backend='z3', timeout=900, funcs=['MD5Transform'],
                    desc='MD5Transform == RFC 1321 compression function, arbitrary 128-bit state and 512-bit block'))
    out.append(Case('c18.md5.transform.mem', 'md5.c', {'VF_MODE': 1}, unwind=66, checks='safety', safety_owner='C18', timeout=900, funcs=['MD5Transform'],
                    extra_flags=['--property', 'MD5Transform', '--property', 'vf_harness.assertion.2'] if False else [],
                    desc='MD5Transform memory safety') if False else None)
    out = [c for c in out if c is not None]
    for n in range(1, mx['MD5PAD'] + 1):
        out.append(Case('c18.md5.pad.n%d' % n, 'md5.c', {'VF_MODE': 2, 'VF_N': n}, unwind=n + 140, checks='safety', safety_owner='C18', timeout=600,
                        instrument=[['--replace-calls', 'MD5Transform:vf_md5_T']], funcs=MD5F,
                        desc='init/update/pad/final of a %d-byte message: blocks fed == RFC 1321 padding, digest == LE(state), compression function abstracted on both sides' % n))
    # streaming: the message fed in two MD5Update calls (a partial block buffered by the first call is completed by the second)
    splits = [(1, 64), (37, 27), (37, 91), (63, 65), (64, 64), (5, 128)] if tier == 'quick' else [(a, b) for a in (1, 8, 37, 55, 56, 63, 64, 65) for b in (1, 27, 63, 64, 65, 91, 128, 129)]
    for (a, b) in splits:
        out.append(Case('c18.md5.stream.a%d.b%d' % (a, b), 'md5.c', {'VF_MODE': 4, 'VF_N': a + b, 'VF_A': a}, unwind=a + b + 140, checks='safety', safety_owner='C18', timeout=600,
                        instrument=[['--replace-calls', 'MD5Transform:vf_md5_T']], funcs=MD5F,
                        desc='MD5Init; MD5Update(%d bytes); MD5Update(%d bytes); MD5Final: blocks fed == RFC 1321 padding of the concatenation (compression function abstracted on both sides)' % (a, b)))
    for n in mx['MD5E2E']:
        out.append(Case('c18.md5.e2e.n%d' % n, 'md5.c', {'VF_MODE': 3, 'VF_N': n}, unwind=n + 140, checks='func', backend='z3', timeout=1500, mem_gb=12,
                        funcs=MD5F + ['MD5Transform'], desc='end-to-end qhashmd5 == RFC 1321 MD5 for all %d-byte messages (cross-check of the composition)' % n))
    out.append(Case('c18.md5.file', 'md5file.c', {}, unwind=18, unwindset={'qhashmd5_file.0': 10, 'vf_read.0': 9, 'MD5Update.0': 9}, checks='safety', safety_owner='C18', timeout=900, funcs=['qhashmd5_file'],
                    desc='qhashmd5_file over an in-memory file <= 8 bytes, symbolic offset/nbytes/short reads/IO errors'))
    return out


def meta(tier):
    mx = MAXN[tier]
    return {'level': 'model_checking',
            'bounds': {k: ('lengths 1..%d' % v if isinstance(v, int) else 'lengths %s' % v) for k, v in mx.items()},
            'outside': ['lengths above the bound', 'alignment faults of the host CPU (CBMC accesses are byte-precise); alignment DEPENDENCE of the result is covered by the offset queries', 'files larger than 8 bytes; offsets/lengths near the off_t limits',
                        'big-endian hosts (the build under test is little-endian, as is the reference block assembly)'],
            'stubs': ['in-memory file model for open/fstat/lseek/read/close (short reads and errors solver-chosen)',
                      'MD5 primitives replaced by a byte-stream recorder in the file query',
                      'MD5Transform replaced by a logging stub on both sides in the padding queries (goto-instrument --replace-calls)'],
            'assumptions': ['malloc does not fail', 'K[i] table of the MD5 reference computed from floor(2^32*|sin(i+1)|)', 'CBMC models of memcpy/memset'],
            'explanation': 'One solver query per (algorithm, concrete length) with all bytes symbolic: qlibc result == independent reference (z3 through cbmc --z3 for the arithmetic; SAT for the memory-safety twin on an exactly sized heap buffer). '
                           'FNV: reference in Noll\'s shift-add form + SMT lemma shift-add == multiply by the FNV prime (cvc5, z3). MD5: compositional - MD5Transform == RFC 1321 compression for arbitrary state/block (one z3 query), '
                           'plus padding/chaining logic per length with the compression function abstracted on both sides, plus end-to-end cross-checks in the thorough tier.'}
