from ..engine import Case

CODECS = {'URL': 1, 'B64': 2, 'HEX': 3}
FUNCS = {'URL': ['qurl_encode', 'qurl_decode', '_q_x2c'], 'B64': ['qbase64_encode', 'qbase64_decode'], 'HEX': ['qhex_encode', 'qhex_decode']}


def _unw(codec, n):
    return {'URL': 3 * n + 3, 'B64': 4 * ((n + 2) // 3) + 3, 'HEX': 2 * n + 3}[codec] + 1


def cases(tier):
    out = []
    maxn = {'quick': {'URL': 8, 'B64': 9, 'HEX': 8}, 'thorough': {'URL': 16, 'B64': 32, 'HEX': 32}}[tier]
    for codec in ('URL', 'B64', 'HEX'):
        for n in range(0, maxn[codec] + 1):
            out.append(Case('c16.rt.%s.n%d' % (codec, n), 'enc.c', {'VF_CODEC': CODECS[codec], 'VF_N': n, 'VF_MODE': 0},
                            unwind=_unw(codec, n), checks='safety', funcs=FUNCS[codec], timeout=600,
                            desc='%s encode/format/decode round trip, all %d bytes symbolic' % (codec, n), safety_owner='C11'))
    for codec in ('URL', 'HEX'):
        for n in range(1, (6 if tier == 'quick' else 12) + 1):
            out.append(Case('c16.lenient.%s.n%d' % (codec, n), 'enc.c', {'VF_CODEC': CODECS[codec], 'VF_N': n, 'VF_MODE': 1},
                            unwind=_unw(codec, n), checks='safety', funcs=FUNCS[codec], timeout=600,
                            desc='%s decoder leniency (hex digit case, +) on %d bytes' % (codec, n), safety_owner='C17'))
    from . import c16q
    out += c16q.cases(tier)
    return out


def meta(tier):
    return {
        'level': 'model_checking',
        'bounds': {'quick': 'payload length 0..8 (URL, hex), 0..9 (Base64); leniency 1..6; query strings: see c16.query cases',
                   'thorough': 'payload 0..16 URL, 0..32 Base64/hex; leniency 1..12'}[tier],
        'outside': ['payloads longer than the bound', 'query names that are blank-only or contain the separators un-encoded (names are trimmed by the parser)'],
        'stubs': ['CBMC built-in models of malloc/free/strdup/strlen/memset'],
        'assumptions': ['malloc does not fail (--no-malloc-may-fail); allocation failure is the subject of C15',
                        'one solver query per (codec, length); every byte of the payload is a solver variable'],
        'explanation': 'Bounded symbolic execution (CBMC, SAT back end) of the real qencode.c/qinternal.c: for each codec and each payload length up to the bound, '
                       'all payload bytes are symbolic; assertions: output equals an independent RFC 4648 encoder / is 2 lowercase hex digits per byte / URL literals only from the safe set and %hh otherwise; decode(encode(x))==x with exact length; '
                       'decoders accept either hex-digit case and + for space.',
    }
