from ..fam import tree


def cases(tier):
    return tree.nearest_cases(tier)


def meta(tier):
    i = tree.info(tier)
    return {'level': 'model_checking', 'bounds': 'every valid LLRB shape with <= %d nodes; probe key symbolic over every present key and every gap' % (5 if tier == 'quick' else 7),
            'stubs': i['stubs'],
            'assumptions': ['pre-state as for C03: table epoch, node stamps (subject to: no stamp exceeds the epoch) and EVERY next link including the root\'s are arbitrary - covers every earlier history incl. nodes that once had a parent and later became the root'],
            'outside': ['trees larger than the bound'],
            'explanation': 'find_nearest from every such state with a symbolic probe: terminates (unwinding assertions on descent and climb, replayed natively under a watchdog), returns equal key / greatest smaller / smallest, independent of the bookkeeping fields; '
                           'when no node carries the current epoch (no unfinished walk) continuing with getnext visits every key exactly once and ends.'}
