import importlib


def _fams():
    out = []
    for name in ('aconf', 'ini'):
        try:
            out.append(importlib.import_module('vlib.fam.' + name))
        except ImportError:
            pass
    return out


def cases(tier):
    out = []
    for m in _fams():
        out += m.cases(tier, 'c20')
    return out


def meta(tier):
    infos = [m.info(tier) for m in _fams()]
    return {'level': 'model_checking', 'bounds': {i['container']: i['bounds'] for i in infos},
            'outside': ['documents longer/deeper than the templates', 'message text of errors (only the line number is checked)', 'float forms beyond the templates'],
            'stubs': sorted(set(sum([i['stubs'] for i in infos], []))),
            'assumptions': [i['container'] + ': ' + i['prestate'] for i in infos],
            'explanation': 'Print -> parse round trip: the harness holds a structured document (line kinds and word counts are per-query constants, names/argument bytes/quoting/padding/option table/flags symbolic), prints it, runs the real parser and compares the '
                           'callback stream / entry list, accept-reject decision, return count and error line with what the structure implies.'}
