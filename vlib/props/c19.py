"""C19 - string utilities (src/utilities/qstring.c) compute exactly their documented
function with bounded writes.  Harness: harness/str.c, references: ref/strspec.h.
One solver query per (function, tuple of string LENGTHS / buffer size); every byte symbolic."""
from ..engine import Case

FN = {'TRIM': 1, 'TRIM_HEAD': 2, 'TRIM_TAIL': 3, 'UNCHAR': 4, 'REPLACE': 5, 'BADMODE': 6, 'CPY': 7, 'NCPY': 8,
      'BETWEEN': 9, 'MEMDUP': 10, 'GETS': 11, 'REV': 12, 'UPPER': 13, 'LOWER': 14, 'TOK': 15, 'TOKENIZER': 16, 'NULLARGS': 17}
RMODES = ['tn', 'tr', 'sn', 'sr']

# bounds per tier: source length, token length, word length
B = {'quick': {'n': 4, 'map_n': 6, 'tmin': 1, 't': 2, 'w': 2, 'ovl': 2},
     'thorough': {'n': 6, 'map_n': 10, 'tmin': 1, 't': 3, 'w': 3, 'ovl': 3}}


def _case(cid, fn, defs, unwind, funcs, desc, timeout=300):
    d = {'VF_FN': FN[fn]}
    d.update(defs)
    # the first four loops of vf_harness copy the symbolic bytes (the longest: DD = N + SZ + 8, SZ defaults to 2) into plain
    # arrays; they get their own bound so that the global one stays tight for the library loops
    dd = d.get('VF_N', 3) + d.get('VF_SZ', 2) + 10
    return Case('c19.' + cid, 'str.c', d, unwind=unwind, unwindset={'vf_harness.%d' % k: dd for k in range(4)},
                checks='safety', safety_owner='C19', unwind_owner='C19', funcs=funcs, desc=desc, timeout=timeout)


def replace_cases(b):
    out = []
    for rm, mode in enumerate(RMODES):
        tokmode = rm < 2
        inplace = rm & 1
        for n in range(0, b['n'] + 1):
            for t in range(1, b['t'] + 1):
                # string mode needs a word longer than a 2-byte token to exercise the remainder term of the size bound
                for w in range(0, max(b['w'], t + 1 if not tokmode else 0) + 1):
                    unw = n * max(w, 1) + max(t, w) + 5
                    grow = (w - 1) if tokmode else (w - t)
                    base = {'VF_RMODE': rm, 'VF_N': n, 'VF_T': t, 'VF_W': w}
                    cid = 'replace.%s.n%d.t%d.w%d' % (mode, n, t, w)
                    what = ('every listed character' if tokmode else 'every leftmost non-overlapping occurrence')
                    if inplace and grow > 0:
                        maxk = n if tokmode else n // t
                        for k in range(0, maxk + 1):
                            d = dict(base)
                            d['VF_K'] = k
                            out.append(_case(cid + '.k%d' % k, 'REPLACE', d, unw, ['qstrreplace'],
                                             'qstrreplace("%s"): source %d, token %d, word %d bytes, exactly %d replacements; buffer capacity exactly result+1 = %d; %s replaced'
                                             % (mode, n, t, w, k, max(n, n + k * grow) + 1, what)))
                    else:
                        out.append(_case(cid, 'REPLACE', base, unw, ['qstrreplace'],
                                         'qstrreplace("%s"): source %d, token %d, word %d bytes, all bytes symbolic; %s replaced, nothing else' % (mode, n, t, w, what)))
    # string mode with a 3-byte search word on sources long enough for a failed partial match to overlap a real occurrence
    # (e.g. "aaab" / "aab"): present in both tiers
    for rm, mode in ((2, 'sn'), (3, 'sr')):
        for n in (4, 5):
            if b['t'] >= 3 and n <= b['n']:
                continue
            out.append(_case('replace.%s.n%d.t3.w1' % (mode, n), 'REPLACE', {'VF_RMODE': rm, 'VF_N': n, 'VF_T': 3, 'VF_W': 1}, n + 3 + 5, ['qstrreplace'],
                             'qstrreplace("%s"): source %d, search word 3 bytes, replacement 1 byte, all bytes symbolic' % (mode, n)))
    # refused modes
    for ml in (0, 1, 3):
        out.append(_case('replace.badmode.len%d' % ml, 'BADMODE', {'VF_ML': ml, 'VF_N': 2, 'VF_T': 1, 'VF_W': 1}, 8, ['qstrreplace'],
                         'qstrreplace with a mode string of length %d (symbolic bytes) returns NULL' % ml))
    for n in range(0, min(b['n'], 3) + 1):
        for t in (1, 2):
            for w in (0, 1, 2):
                out.append(_case('replace.badmode.len2.n%d.t%d.w%d' % (n, t, w), 'BADMODE', {'VF_ML': 2, 'VF_N': n, 'VF_T': t, 'VF_W': w}, n * max(w, 1) + 7, ['qstrreplace'],
                                 'qstrreplace with any 2-character mode other than tn/tr/sn/sr returns NULL, source untouched'))
    return out


def cases(tier):
    b = B[tier]
    out = []
    # exact = string in an exactly sized object; lead = one symbolic guard byte in front (see VF_LEAD in str.c): used where
    # qstring.c forms the address str-1 (empty / all-blank string in qstrtrim, qstrtrim_tail, qstrrev)
    for fn, f in (('TRIM', 'qstrtrim'), ('TRIM_HEAD', 'qstrtrim_head'), ('TRIM_TAIL', 'qstrtrim_tail')):
        for n in range(0, b['map_n'] + 1):
            what = '%s on every string of length %d: removes exactly the leading/trailing {blank,tab,CR,LF}, in place, same pointer' % (f, n)
            if fn == 'TRIM_TAIL':
                out.append(_case('%s.n%d.lead' % (fn.lower(), n), fn, {'VF_N': n, 'VF_LEAD': 1}, n + 5, [f], what + ' (guard byte in front)'))
                if n >= 1:
                    out.append(_case('%s.n%d.exact' % (fn.lower(), n), fn, {'VF_N': n}, n + 5, [f], what + ' (exactly sized object; strings that are not all white space)'))
            elif fn == 'TRIM' and n == 0:
                out.append(_case('%s.n%d.lead' % (fn.lower(), n), fn, {'VF_N': n, 'VF_LEAD': 1}, n + 5, [f], what + ' (guard byte in front)'))
            else:
                out.append(_case('%s.n%d' % (fn.lower(), n), fn, {'VF_N': n}, n + 5, [f], what))
    for n in range(0, b['map_n'] + 1):
        out.append(_case('unchar.n%d' % n, 'UNCHAR', {'VF_N': n}, n + 4, ['qstrunchar'],
                         'qstrunchar on every string of length %d with symbolic head/tail characters' % n))
    out += replace_cases(b)
    # bounded copies
    for n in range(0, b['n'] + 1):
        for sz in range(0, n + 3):
            out.append(_case('cpy.n%d.sz%d' % (n, sz), 'CPY', {'VF_N': n, 'VF_SZ': sz}, n + sz + 4, ['qstrcpy', 'qstrncpy'],
                             'qstrcpy of a %d-byte string into an exactly %d-byte destination' % (n, sz)))
        for sz in range(0, n + 4):
            for cl in (0, 1):
                out.append(_case('ncpy.n%d.sz%d.%s' % (n, sz, 'within' if cl == 0 else 'beyond'), 'NCPY', {'VF_N': n, 'VF_SZ': sz, 'VF_NCLASS': cl}, n + sz + 4, ['qstrncpy'],
                                 'qstrncpy of a %d-byte string (exactly sized) into an exactly %d-byte destination, nbytes symbolic %s' % (n, sz, '<= strlen(src)' if cl == 0 else '> strlen(src), whole size_t range')))
    for n in range(1, b['n'] + 1):
        for ov in [x for x in range(-b['ovl'], b['ovl'] + 1) if x != 0 and abs(x) <= n]:
            for sz in range(1, n + 3):
                out.append(_case('cpy.overlap.n%d.sz%d.ov%s%d' % (n, sz, 'p' if ov > 0 else 'm', abs(ov)), 'CPY', {'VF_N': n, 'VF_SZ': sz, 'VF_OV': ov}, 2 * n + sz + 12, ['qstrcpy', 'qstrncpy'],
                                 'qstrcpy with overlapping source and destination (dst = src %+d), %d-byte string, size %d' % (ov, n, sz)))
    # qstrdup_between
    for n in range(0, b['n'] + 1):
        for t in range(0, 3):
            for w in range(0, 3):
                out.append(_case('between.n%d.s%d.e%d' % (n, t, w), 'BETWEEN', {'VF_N': n, 'VF_T': t, 'VF_W': w}, n + 5, ['qstrdup_between'],
                                 'qstrdup_between: string %d, start %d, end %d bytes' % (n, t, w)))
    for n in range(0, b['map_n'] + 1):
        out.append(_case('memdup.n%d' % n, 'MEMDUP', {'VF_N': n}, n + 3, ['qmemdup'], 'qmemdup of %d arbitrary bytes (NULs allowed)' % n))
    # line reader
    for n in range(0, b['n'] + 1):
        for sz in range(1, n + 3):
            out.append(_case('gets.n%d.sz%d' % (n, sz), 'GETS', {'VF_N': n, 'VF_SZ': sz}, n + sz + 4, ['qstrgets'],
                             'qstrgets: one call from a symbolic offset 0..%d of a %d-byte text into an exactly %d-byte buffer' % (n, n, sz)))
    for fn, f in (('REV', 'qstrrev'), ('UPPER', 'qstrupper'), ('LOWER', 'qstrlower')):
        for n in range(0, b['map_n'] + 1):
            lead = (fn == 'REV' and n == 0)
            out.append(_case('%s.n%d%s' % (fn.lower(), n, '.lead' if lead else ''), fn, {'VF_N': n, 'VF_LEAD': 1} if lead else {'VF_N': n}, n + 5, [f],
                             '%s on every string of length %d' % (f, n) + (' (guard byte in front)' if lead else '')))
    # tokenizers
    for n in range(0, b['n'] + 1):
        for t in range(0, 3):
            out.append(_case('tok.n%d.d%d' % (n, t), 'TOK', {'VF_N': n, 'VF_T': t}, n + 5, ['qstrtok'],
                             'qstrtok: one call from any offset 0..%d of a %d-byte string, %d symbolic delimiters, with and without retstop' % (n, n, t)))
            out.append(_case('tokenizer.n%d.d%d' % (n, t), 'TOKENIZER', {'VF_N': n, 'VF_T': t}, n + 5, ['qstrtokenizer', 'qstrtok', 'qlist', 'qlist_addlast', 'qlist_free'],
                             'qstrtokenizer: list of all fields of a %d-byte string with %d symbolic delimiters == reference split' % (n, t)))
    out.append(_case('nullargs', 'NULLARGS', {'VF_N': 2, 'VF_T': 1, 'VF_SZ': 2}, 10,
                     ['qstrtrim', 'qstrtrim_head', 'qstrtrim_tail', 'qstrunchar', 'qstrreplace', 'qstrcpy', 'qstrncpy', 'qstrgets', 'qstrrev', 'qstrupper', 'qstrlower', 'qmemdup'],
                     'NULL arguments are refused without touching anything'))
    from ..fam import strf
    return out + strf.cases(tier, 'C19')


def meta(tier):
    b = B[tier]
    return {
        'level': 'model_checking',
        'bounds': ('source/text length 0..%d (trim, unchar, rev, upper, lower, memdup: 0..%d); token/search/delimiter length 1..%d (between, tok: 0..2), replacement word 0..%d; '
                   'destination sizes 0..n+2 (qstrcpy), 0..n+3 (qstrncpy, nbytes over all of size_t), 1..n+2 (qstrgets); overlapping copies with shifts -%d..+%d; '
                   'in-place replace: capacity exactly max(source, result)+1 per replacement count; every byte symbolic over all values (no NUL inside strings)')
                  % (b['n'], b['map_n'], b['t'], b['w'], b['ovl'], b['ovl']),
        'outside': ['strings longer than the bound',
                    'qstrdupf: only the buffer management around vsnprintf with the format "%s" (strf queries); qstrcatf (printf formatting), qstr_comma_number (snprintf), qstrunique (time/pid/rand/MD5), qstr_conv_encoding (iconv): formatting/environment, not in the statement',
                    'qstrtest, qstr_is_email, qstr_is_ip4addr: not listed by the statement; their smallest accepted inputs (6-7 characters, ctype/atoi through function pointers) exceed the length bound',
                    'qstrreplace with an empty search token (the statement quantifies over non-empty tokens)',
                    'qstrgets with size 0; qstrtok with an offset outside [0, strlen] (the offset protocol only produces offsets inside)',
                    'allocation failure inside qstrreplace/qstrdup_between/qstrtokenizer (C15)'],
        'stubs': ['strstr: vf_strstr in harness/str.c (used by qstrdup_between only); compared with glibc strstr on 200000 random pairs (gcc -DVF_STRSTR_SELFTEST harness/str.c)',
                  'strlen in the qstrreplace queries / strdup in the qstrtokenizer queries: for the strings the harness built and registered, return / allocate the construction-time length as a constant after asserting (C19.harness.strlen-model) that a byte scan yields the same length; other pointers are scanned. Keeps the sizes qstring.c hands to malloc concrete (symbolic sizes exhaust 8 GB)',
                  'qstrtokenizer queries: harness/stubs.h (pthread/usleep lock model, counting allocator shim) around the real qlist.c',
                  'CBMC built-in models of malloc/free/strdup/strlen/strcpy/strncpy/strncmp/memmove/memcpy'],
        'assumptions': ['malloc does not fail (--no-malloc-may-fail)',
                        'qstrgets truncation rule (documentation silent): one call consumes at most size-1 source characters, as fgets does',
                        'qstrtok/qstrtokenizer: the empty remainder after a trailing delimiter, and the empty string, yield no further token (not expressible in the offset protocol; the documented example only shows inner empty fields); every other empty field must be returned',
                        'in-place replace: "enough space" of the documentation is read as room for max(source, result) plus terminator',
                        'forming (not dereferencing) the address one before a buffer, as qstrtrim (empty string), qstrtrim_tail (empty or all-white-space string) and qstrrev (empty string) do, is tolerated: for exactly those inputs the string is placed after one symbolic guard byte '
                        '(asserted unchanged) instead of at the start of its heap object, because CBMC evaluates a comparison with a pointer below its object differently from every flat address space; a READ of that one guard byte would go unnoticed there, the upper end stays exact',
                        'qstrncpy: nbytes ranges over all of size_t; "no more than n bytes" of the source STRING is read as: nbytes > strlen(src) is a legal call (strncpy convention), the source object being exactly strlen+1 bytes'],
        'explanation': 'Bounded symbolic execution (CBMC, SAT) of the real qstring.c (+ qlist.c for qstrtokenizer). The driver enumerates every tuple of lengths (source, token, word, destination size, and for growing in-place replacement the number of replacements, which fixes the capacity); '
                       'the solver covers every byte value. Each routine is compared byte for byte, including the terminator position and the returned pointer/offset, with an independent reference written as plain loops over (pointer, length) arrays (ref/strspec.h). '
                       'All strings and destinations are exactly sized heap objects and the pointer/bounds checks are on, so any access outside the buffers the contract covers fails a built-in check owned by C19; unwinding assertions (owned by C19) prove every loop ends within the bound implied by the lengths.',
    }
