from ..fam import hasharr


def cases(tier):
    return hasharr.cases(tier, 'func')


def meta(tier):
    i = hasharr.info(tier)
    return {'level': 'model_checking', 'bounds': i['bounds'], 'stubs': i['stubs'], 'assumptions': [i['prestate'], 'remove_by_idx is called with 0 <= idx < capacity (the documented use: an index obtained from getnext)'],
            'outside': ['capacities above the bound', 'production-size blocks (the code uses the two knobs only through the macros)', 'keys longer than 3 bytes / 65535-byte keys', 'putstrf formatting'],
            'explanation': 'Inductive step on the real qhasharr.c over a heap region of exactly M slots: for every well-formed slot-graph layout (driver-enumerated, proof by cases), every home slot and key class of the operation key and every boundary value size, '
                           'one put/get/remove/remove_by_idx/walk/clear/size with symbolic key bytes, lengths, value bytes and block fills; post: an independent reader of the image finds exactly the ideal map, header counters equal key count and slots occupied, '
                           'put succeeds iff a slot is free and the value fits into free + released slots, else ENOBUFS with other keys untouched.'}
