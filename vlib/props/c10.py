from ..fam import vector


from ..fam import history


def cases(tier):
    return history.cases(tier, 1) + vector.cases(tier, 'func')


def meta(tier):
    i = vector.info(tier)
    return {'level': 'model_checking', 'bounds': i['bounds'],
            'outside': ['capacities above the bound', 'element sizes not listed', 'three-call histories through the public API (every triple of operation kinds, symbolic arguments) in addition to the inductive argument: base (constructor) + one step from every valid state within the capacity bound'],
            'stubs': i['stubs'],
            'assumptions': [i['prestate'], 'malloc does not fail here (C15 covers failure)'],
            'explanation': 'Inductive step by bounded symbolic execution of the real qvector.c: pre-state = every valid vector state for a fixed capacity/element size (num, bytes symbolic), one API call with symbolic index/value/flags, '
                           'post = equality with an ideal array maintained by the harness, refused calls leave contents unchanged; constructor base case. Together they cover operation histories of any length inside the capacity bound.'}
