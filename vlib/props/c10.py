from ..fam import vector


def cases(tier):
    return vector.cases(tier, 'func')


def meta(tier):
    i = vector.info(tier)
    return {'level': 'model_checking', 'bounds': i['bounds'],
            'outside': ['capacities above the bound', 'element sizes not listed', 'histories are covered through the inductive argument only: base (constructor) + one step from every valid state within the capacity bound'],
            'stubs': i['stubs'],
            'assumptions': [i['prestate'], 'malloc does not fail here (C15 covers failure)'],
            'explanation': 'Inductive step by bounded symbolic execution of the real qvector.c: pre-state = every valid vector state for a fixed capacity/element size (num, bytes symbolic), one API call with symbolic index/value/flags, '
                           'post = equality with an ideal array maintained by the harness, refused calls leave contents unchanged; constructor base case. Together they cover operation histories of any length inside the capacity bound.'}
