"""Engine: build harnesses with goto-cc from /repo's current tree, discharge
each case with cbmc (SAT or SMT back end), classify, replay counterexamples
natively, write evidence.  Standard library only."""
import json, os, re, resource, shutil, subprocess, sys, time, hashlib
from concurrent.futures import ThreadPoolExecutor, as_completed

VERIF = os.path.dirname(os.path.dirname(os.path.abspath(__file__)))
REPO = os.environ.get('VERIF_REPO', '/repo')
OUT = os.environ.get('VERIF_OUT', VERIF)   # where evidence/ and replays/ are written (overridden when checks are run against a patched copy)
GUARD = 'QLIBC_VERIF'

INCLUDES = ['-I%s/src/internal' % REPO, '-I%s/include/qlibc' % REPO,
            '-I%s/include' % REPO, '-I%s/src' % REPO,
            '-I%s/harness' % VERIF, '-I%s/ref' % VERIF]
STD = ['-std=gnu99']

SAFETY_FLAGS = ['--pointer-check', '--bounds-check', '--div-by-zero-check',
                '--signed-overflow-check', '--undefined-shift-check',
                '--pointer-primitive-check']
BASE_FLAGS = ['--no-standard-checks', '--unwinding-assertions',
              '--drop-unused-functions', '--no-malloc-may-fail']


class Case(object):
    def __init__(self, cid, harness, defines=None, unwind=None, unwindset=None,
                 checks='func', leak=False, backend='sat', timeout=300,
                 mem_gb=8, funcs=None, desc='', bounds=None, extra_flags=None,
                 safety_owner='C11', unwind_owner=None, object_bits=None,
                 malloc_may_fail=False, family=None, reach_optional=False, instrument=None, co_owned=None):
        self.co_owned = co_owned            # regex over assertion tags of OTHER properties that this run also owns (e.g. representation invariants in the C11 run)
        self.instrument = instrument or []   # list of goto-instrument argument lists applied to the goto binary
        self.cid = cid
        self.harness = harness            # path relative to /verif/harness
        self.defines = dict(defines or {})
        self.unwind = unwind
        self.unwindset = dict(unwindset or {})
        self.checks = checks              # 'func' | 'safety'
        self.leak = leak
        self.backend = backend            # sat | cadical | kissat | z3 | cvc5
        self.timeout = timeout
        self.mem_gb = mem_gb
        self.funcs = funcs or []
        self.desc = desc
        self.bounds = bounds or {}
        self.extra_flags = extra_flags or []
        self.safety_owner = safety_owner  # property owning builtin checks
        self.unwind_owner = unwind_owner  # property owning unwinding assertions (termination), or None => inconclusive
        self.object_bits = object_bits
        self.malloc_may_fail = malloc_may_fail
        self.family = family or os.path.splitext(os.path.basename(harness))[0]

    def define_args(self):
        out = []
        for k, v in sorted(self.defines.items()):
            out.append('-D%s' % k if v is None else '-D%s=%s' % (k, v))
        return out

    def cbmc_flags(self):
        f = list(BASE_FLAGS)
        if self.malloc_may_fail:
            f.remove('--no-malloc-may-fail')
            f += ['--malloc-may-fail', '--malloc-fail-null']
        if self.checks == 'safety':
            f += SAFETY_FLAGS
        if self.leak:
            f += ['--memory-leak-check']
        if self.unwind is not None:
            f += ['--unwind', str(self.unwind)]
        if self.unwindset:
            f += ['--unwindset', ','.join('%s:%d' % kv for kv in sorted(self.unwindset.items()))]
        if self.object_bits:
            f += ['--object-bits', str(self.object_bits)]
        if self.backend == 'z3':
            f += ['--z3']
        elif self.backend == 'cvc5':
            f += ['--cvc5']
        elif self.backend == 'cadical':
            f += ['--sat-solver', 'cadical']
        elif self.backend == 'kissat':
            f += ['--external-sat-solver', 'kissat']
        f += self.extra_flags
        return f


RES_RE = re.compile(r'^\[(?P<id>[^\]]+)\] (?:line (?P<line>\d+) )?(?P<desc>.*): (?P<st>SUCCESS|FAILURE|UNKNOWN|ERROR)$')
TAG_RE = re.compile(r'^(C\d\d)[.:]')


def _pdeathsig():
    # children must not outlive the driver (e.g. when the driver is killed by an outer timeout)
    try:
        import ctypes
        ctypes.CDLL('libc.so.6', use_errno=True).prctl(1, 9)  # PR_SET_PDEATHSIG, SIGKILL
    except Exception:
        pass


def _limit(mem_gb):
    def f():
        if mem_gb:
            b = int(mem_gb * (1 << 30))
            resource.setrlimit(resource.RLIMIT_AS, (b, b))
        os.setsid()
        _pdeathsig()
    return f


def run(cmd, timeout, mem_gb=None, cwd=None, env=None):
    """returns (rc, stdout, stderr, wall, maxrss_kb, timed_out)"""
    t0 = time.time()
    try:
        p = subprocess.Popen(cmd, stdout=subprocess.PIPE, stderr=subprocess.PIPE,
                             cwd=cwd, env=env, preexec_fn=_limit(mem_gb))
    except OSError as e:
        return (127, '', str(e), 0.0, 0, False)
    to = False
    try:
        out, err = p.communicate(timeout=timeout)
    except subprocess.TimeoutExpired:
        to = True
        try:
            os.killpg(p.pid, 9)
        except OSError:
            pass
        out, err = p.communicate()
    wall = time.time() - t0
    try:
        rss = resource.getrusage(resource.RUSAGE_CHILDREN).ru_maxrss
    except Exception:
        rss = 0
    return (p.returncode, out.decode('utf-8', 'replace'), err.decode('utf-8', 'replace'), wall, rss, to)


def classify_desc(case, pid, desc):
    """-> (kind, owner, tag). kind in reach, cover, assert, unwind, builtin"""
    if desc.startswith('vf_reach:'):
        return ('reach', None, desc[len('vf_reach:'):])
    if desc.startswith('vf_cover:'):
        return ('cover', None, desc[len('vf_cover:'):])
    m = TAG_RE.match(desc)
    if m:
        tag = desc.split(':', 1)[0].strip()
        return ('assert', m.group(1), tag)
    if 'unwinding assertion' in desc or pid.endswith('.unwind') or '.unwind.' in pid or 'recursion unwinding' in desc:
        return ('unwind', case.unwind_owner, 'unwind:' + pid)
    if desc.startswith('max allocation'):
        return ('ignore', None, desc)
    return ('builtin', case.safety_owner, 'builtin:' + re.sub(r'\s+', ' ', desc)[:100])


class Result(object):
    pass


class SmtCase(Case):
    """a pure SMT-LIB lemma (ref/<file>.smt2) that must be unsat on every listed solver; the lines marked ';;NEG'
    carry the negated claim - with them removed the rest must be sat (vacuity guard)."""
    def __init__(self, cid, smt2, solvers, timeout=120, funcs=None, desc=''):
        Case.__init__(self, cid, smt2, timeout=timeout, funcs=funcs, desc=desc, backend='+'.join(s.split()[0] for s in solvers))
        self.smt2 = smt2
        self.solvers = solvers
        self.family = 'smt-lemma'

    def cbmc_flags(self):
        return []


def solve_smt(case, workdir):
    r = {'case': case.cid, 'family': case.family, 'desc': case.desc, 'defines': {}, 'status': None, 'failures': [], 'reach_ok': [], 'reach_missing': [],
         'covered': [], 'n_props': 1, 'wall_s': 0.0, 'solver_wall_s': 0.0, 'backend': case.backend, 'cbmc_cmd': ' | '.join('%s ref/%s' % (s, case.smt2) for s in case.solvers)}
    os.makedirs(workdir, exist_ok=True)
    src = open(os.path.join(VERIF, 'ref', case.smt2)).read()
    sane = os.path.join(workdir, 'sane.smt2')
    open(sane, 'w').write('\n'.join(l for l in src.splitlines() if ';;NEG' not in l))
    full = os.path.join(VERIF, 'ref', case.smt2)
    verdicts = []
    for sv in case.solvers:
        rc, out, err, wall, rss, to = run(sv.split() + [full], case.timeout, 8)
        r['wall_s'] += wall
        r['solver_wall_s'] += wall
        v = 'timeout' if to else ('error' if '(error' in out + err else out.strip().split('\n')[-1].strip() if out.strip() else 'error')
        verdicts.append(v)
    rc, out, err, wall, rss, to = run(case.solvers[0].split() + [sane], case.timeout, 8)
    if out.strip().split('\n')[-1].strip() == 'sat':
        r['reach_ok'].append('premises-satisfiable')
    else:
        r['reach_missing'].append('premises-satisfiable')
    r['verdicts'] = verdicts
    if r['reach_missing']:
        r['status'] = 'vacuous'
        r['detail'] = 'premises unsatisfiable'
    elif all(v == 'unsat' for v in verdicts):
        r['status'] = 'holds'
    elif any(v == 'sat' for v in verdicts):
        r['status'] = 'cex'
        r['failures'].append({'pid': case.cid, 'desc': case.desc, 'kind': 'assert', 'owner': case.safety_owner, 'tag': case.cid, 'line': None, 'inputs': None})
    else:
        r['status'] = 'inconclusive'
        r['detail'] = 'solver verdicts: %s' % verdicts
    return r


def solve_case(case, workdir, prop_id, want_trace=True):
    """Build + run one case; an SMT-backed query that ends without a verdict (timeout, memory, solver error) is retried once
    with the SAT back end under a short budget: proving an arithmetic equivalence needs the word-level solver, but when the two
    sides DIFFER a propositional solver finds the counterexample in seconds (and the SMT solver may not)."""
    r = _solve_case_once(case, workdir, prop_id, want_trace)
    if r.get('status') == 'inconclusive' and not isinstance(case, SmtCase) and case.backend in ('z3', 'cvc5'):
        import copy
        c2 = copy.copy(case)
        c2.backend = 'sat'
        c2.timeout = min(case.timeout, 150)
        c2.unwindset = dict(case.unwindset)
        r2 = _solve_case_once(c2, workdir + '.sat', prop_id, want_trace)
        r2['wall_s'] = r2.get('wall_s', 0) + r.get('wall_s', 0)
        r2['solver_wall_s'] = r2.get('solver_wall_s', 0) + r.get('solver_wall_s', 0)
        r2['backend'] = '%s (no verdict: %s) then sat' % (case.backend, (r.get('detail') or '')[:60])
        if r2.get('status') != 'inconclusive':
            return r2
        r['detail'] = (r.get('detail') or '') + ' | SAT retry: ' + (r2.get('detail') or '')[:200]
    return r


def _solve_case_once(case, workdir, prop_id, want_trace=True):
    """Build + run one case. Returns a dict."""
    if isinstance(case, SmtCase):
        return solve_smt(case, workdir)
    r = {'case': case.cid, 'family': case.family, 'desc': case.desc, 'defines': case.defines,
         'status': None, 'failures': [], 'reach_ok': [], 'reach_missing': [], 'covered': [],
         'n_props': 0, 'wall_s': 0.0, 'solver_wall_s': 0.0, 'backend': case.backend}
    os.makedirs(workdir, exist_ok=True)
    gb = os.path.join(workdir, 'h.gb')
    hpath = os.path.join(VERIF, 'harness', case.harness)
    cc = ['goto-cc'] + STD + INCLUDES + ['-D' + GUARD, '-DVF_CBMC'] + case.define_args() + [hpath, '-o', gb]
    rc, out, err, wall, rss, to = run(cc, 300, 8)
    r['wall_s'] += wall
    r['build_cmd'] = ' '.join(cc)
    if rc != 0 or not os.path.exists(gb):
        r['status'] = 'build_error'
        r['detail'] = (out + err)[-3000:]
        return r
    for k, ins in enumerate(case.instrument):
        gb2 = os.path.join(workdir, 'h%d.gb' % k)
        rc, out, err, wall, rss, to = run(['goto-instrument'] + list(ins) + [gb, gb2], 300, 8)
        r['wall_s'] += wall
        if rc != 0 or not os.path.exists(gb2):
            r['status'] = 'build_error'
            r['detail'] = 'goto-instrument %s: %s' % (ins, (out + err)[-2000:])
            return r
        r['build_cmd'] += ' && goto-instrument %s' % ' '.join(ins)
        gb = gb2
    # recursion/loop ids of functions that --drop-unused-functions removed are rejected by cbmc: drop them and retry
    for _ in range(40):
        cmd = ['cbmc', gb] + case.cbmc_flags()
        rc, out, err, wall, rss, to = run(cmd, case.timeout, case.mem_gb, cwd=workdir)
        r['wall_s'] += wall
        m = re.search(r'invalid loop identifier (\S+)', out + err)
        if m and m.group(1) in case.unwindset:
            del case.unwindset[m.group(1)]
            continue
        break
    r['wall_s'] -= wall
    r['cbmc_cmd'] = ' '.join(cmd)
    r['wall_s'] += wall
    r['solver_wall_s'] = wall
    r['max_rss_kb'] = rss
    if to:
        r['status'] = 'inconclusive'
        r['detail'] = 'timeout after %ds' % case.timeout
        return r
    props = []
    for line in out.splitlines():
        m = RES_RE.match(line.strip())
        if m:
            props.append((m.group('id'), m.group('desc'), m.group('st'), m.group('line')))
    final_ok = 'VERIFICATION SUCCESSFUL' in out
    final_fail = 'VERIFICATION FAILED' in out
    if not props or not (final_ok or final_fail) or '(error' in out or '(error' in err:
        r['status'] = 'inconclusive'
        tail = (out[-1500:] + '\n' + err[-1500:])
        if 'std::bad_alloc' in tail or 'Out of memory' in tail or rc in (-9, 137, -6, 134):
            r['detail'] = 'out of memory (cap %d GB) rc=%s' % (case.mem_gb, rc)
        else:
            r['detail'] = 'no verdict rc=%s: %s' % (rc, tail[-1200:])
        return r
    r['n_props'] = len(props)
    unknown = False
    for pid, desc, st, line in props:
        kind, owner, tag = classify_desc(case, pid, desc)
        if kind == 'ignore':
            continue
        if st in ('UNKNOWN', 'ERROR'):
            unknown = True
            continue
        if kind == 'reach':
            (r['reach_ok'] if st == 'FAILURE' else r['reach_missing']).append(tag)
        elif kind == 'cover':
            if st == 'FAILURE':
                r['covered'].append(tag)
        elif st == 'FAILURE':
            r['failures'].append({'pid': pid, 'desc': desc, 'kind': kind, 'owner': owner, 'tag': tag, 'line': line})
    if unknown and not r['failures']:
        r['status'] = 'inconclusive'
        r['detail'] = 'solver returned UNKNOWN for some property'
    elif r['reach_missing']:
        r['status'] = 'vacuous'
        r['detail'] = 'reachability witness not reachable: %s' % r['reach_missing']
    elif not r['reach_ok']:
        r['status'] = 'vacuous'
        r['detail'] = 'harness has no reachability witness'
    elif r['failures']:
        r['status'] = 'cex'
    else:
        r['status'] = 'holds'
    # traces for failures: one more full run with --trace, traces picked per failing property id
    if r['status'] == 'cex' and want_trace:
        prio = {'assert': 0, 'builtin': 1, 'unwind': 2}
        wanted, seen = [], set()
        for f in sorted(r['failures'], key=lambda f: prio.get(f['kind'], 3)):
            if f['tag'] not in seen and len(wanted) < 4:
                seen.add(f['tag'])
                wanted.append(f)
        tcmd = ['cbmc', gb] + case.cbmc_flags() + ['--trace', '--json-ui']
        rc2, out2, err2, wall2, rss2, to2 = run(tcmd, case.timeout * 2, case.mem_gb, cwd=workdir)
        r['wall_s'] += wall2
        if not to2:
            traces = extract_inputs(out2)
            for f in wanted:
                f['inputs'] = traces.get(f['pid'])
    return r


LHS_RE = re.compile(r'^vfin(\.|\[|$)')


def extract_inputs(json_text):
    """{property id: {vfin path: value}} - last leaf assignment to every vfin.* path in each failing property's trace"""
    out = {}
    try:
        d = json.loads(json_text)
    except Exception:
        return out
    for m in d:
        if not isinstance(m, dict) or 'result' not in m:
            continue
        for res in m['result']:
            if not res.get('trace'):
                continue
            vals = {}
            for st in res['trace']:
                if st.get('stepType') != 'assignment':
                    continue
                lhs = st.get('lhs', '')
                if not LHS_RE.match(lhs):
                    continue
                v = st.get('value', {})
                if 'binary' in v:
                    path = re.sub(r'\[(\d+)[a-zA-Z]*\]', r'[\1]', lhs)
                    vals[path] = {'bin': v['binary'], 'type': v.get('type', ''), 'data': v.get('data')}
            out[res.get('property')] = vals
    return out


def write_replay_fill(inputs, path):
    with open(path, 'w') as f:
        f.write('/* generated from a solver counterexample */\nstatic void vf_replay_fill(void) {\n')
        for p in sorted(inputs or {}):
            if '$' in p:
                continue
            b = inputs[p]['bin']
            f.write('    %s = (__typeof__(%s))0x%xULL; /* %s */\n' % (p, p, int(b, 2) if b else 0, inputs[p].get('data')))
        f.write('}\n')


_NATIVE_LIB = {}


def native_lib(workroot):
    """static archive of all qlibc TUs of /repo's current tree (ASan/UBSan build); the linker pulls from it only
    the members that satisfy symbols the harness (which #includes the TUs under test) leaves undefined."""
    if workroot in _NATIVE_LIB:
        return _NATIVE_LIB[workroot]
    d = os.path.join(workroot, 'nativelib')
    os.makedirs(d, exist_ok=True)
    srcs = []
    for sub in ('containers', 'utilities', 'internal', 'internal/md5', 'extensions', 'ipc'):
        sd = os.path.join(REPO, 'src', sub)
        if os.path.isdir(sd):
            srcs += [os.path.join(sd, f) for f in sorted(os.listdir(sd)) if f.endswith('.c')]
    objs = []
    procs = []
    for s in srcs:
        o = os.path.join(d, re.sub(r'[^A-Za-z0-9]', '_', os.path.relpath(s, REPO)) + '.o')
        objs.append(o)
        procs.append(subprocess.Popen(['gcc', '-std=gnu99', '-g', '-O0', '-w', '-fsanitize=address,undefined', '-fno-omit-frame-pointer',
                                       '-I%s/src/internal' % REPO, '-I%s/include/qlibc' % REPO, '-I%s/include' % REPO, '-c', s, '-o', o],
                                      stdout=subprocess.DEVNULL, stderr=subprocess.DEVNULL))
    for p in procs:
        p.wait()
    objs = [o for o in objs if os.path.exists(o)]
    lib = os.path.join(d, 'libqlibc_native.a')
    subprocess.call(['ar', 'rcs', lib] + objs)
    _NATIVE_LIB[workroot] = lib
    return lib


def native_replay(case, inputs, workdir, timeout=20):
    """compile the same harness natively with ASan/UBSan and run it on the counterexample.
    returns dict(outcome=..., output=...) outcome in: assert_failed, sanitizer, timeout, assume_false, passed, build_error"""
    os.makedirs(workdir, exist_ok=True)
    fill = os.path.join(workdir, 'replay_fill.h')
    write_replay_fill(inputs, fill)
    exe = os.path.join(workdir, 'replay.exe')
    hpath = os.path.join(VERIF, 'harness', case.harness)
    cc = ['gcc', '-std=gnu99', '-g', '-O0', '-w', '-fsanitize=address,undefined', '-fno-sanitize-recover=undefined',
          '-fno-omit-frame-pointer'] + INCLUDES + ['-D' + GUARD, '-DVF_REPLAY', '-DVF_REPLAY_FILL="%s"' % fill] + \
        case.define_args() + [hpath, native_lib(os.path.dirname(workdir)), '-o', exe, '-lpthread', '-lm']
    rc, out, err, wall, rss, to = run(cc, 300)
    if rc != 0:
        return {'outcome': 'build_error', 'output': (out + err)[-3000:], 'cmd': ' '.join(cc)}
    env = dict(os.environ)
    env['ASAN_OPTIONS'] = 'detect_leaks=1:abort_on_error=0:exitcode=99:detect_stack_use_after_return=0'
    env['UBSAN_OPTIONS'] = 'print_stacktrace=1:halt_on_error=1:exitcode=98'
    rc, out, err, wall, rss, to = run([exe], timeout, None, env=env)
    text = (out + err)
    if to:
        oc = 'timeout'
    elif 'VF_ASSERT_FAILED' in text:
        oc = 'assert_failed'
    elif 'VF_ASSUME_FALSE' in text and rc == 77:
        oc = 'assume_false'
    elif 'AddressSanitizer' in text or 'LeakSanitizer' in text or 'runtime error' in text:
        oc = 'sanitizer'
    elif rc == 127 or 'error while loading' in text:
        oc = 'build_error'
    elif rc != 0:
        oc = 'crash'
    else:
        oc = 'passed'
    m = re.search(r'VF_ASSERT_FAILED \[([^\]]+)\]', text)
    return {'outcome': oc, 'rc': rc, 'failed_tag': m.group(1) if m else None, 'output': text[-3000:], 'cmd': ' '.join(cc)}


# ---------------------------------------------------------------- known findings
def load_known():
    """known_findings.txt lines:
       finding: property=C03 tag=<tag-regex> [case=<case-regex>] -- text
       fixed:   property=C11 <commit> <what failed>"""
    out = []
    p = os.path.join(VERIF, 'known_findings.txt')
    if not os.path.exists(p):
        return out
    for line in open(p):
        line = line.strip()
        if not line.startswith('finding:'):
            continue
        body, _, text = line[len('finding:'):].partition('--')
        kv = dict(x.split('=', 1) for x in body.split() if '=' in x)
        out.append({'property': kv.get('property'), 'tag': kv.get('tag', '.*'), 'case': kv.get('case', '.*'), 'text': text.strip()})
    return out


def match_known(known, owner, tag, cid):
    for k in known:
        if k['property'] == owner and re.fullmatch(k['tag'], tag) and re.fullmatch(k['case'], cid):
            return k
    return None


# ---------------------------------------------------------------- driver
def git_head(path):
    try:
        return subprocess.check_output(['git', '-C', path, 'rev-parse', 'HEAD'], stderr=subprocess.DEVNULL).decode().strip()
    except Exception:
        return None


def run_property(prop, tier, cases, jobs=None, meta=None, only=None, keep=False):
    """prop: 'C16'. cases: list[Case]. Returns exit code."""
    t0 = time.time()
    meta = meta or {}
    seed = int(os.environ.get('VERIF_SEED', '0') or 0)
    jobs = jobs or int(os.environ.get('VERIF_JOBS', '0') or 0) or min(16, os.cpu_count() or 4)
    if only:
        cases = [c for c in cases if re.search(only, c.cid)]
    work = os.path.join(OUT, '.work', '%s-%s-%d' % (prop, tier, os.getpid()))
    shutil.rmtree(work, ignore_errors=True)
    os.makedirs(work)
    known = load_known()
    if not only:
        shutil.rmtree(os.path.join(OUT, 'replays', prop), ignore_errors=True)
    results = []
    # heavier cases first for better packing
    order = sorted(cases, key=lambda c: -c.timeout)
    mem_budget_gb = 56
    par = max(1, min(jobs, int(mem_budget_gb // max(c.mem_gb for c in cases)) if cases else 1))
    try:
        with ThreadPoolExecutor(max_workers=par) as ex:
            futs = {ex.submit(solve_case, c, os.path.join(work, re.sub(r'[^A-Za-z0-9_.-]', '_', c.cid)), prop): c for c in order}
            for fu in as_completed(futs):
                c = futs[fu]
                try:
                    r = fu.result()
                except Exception as e:  # engine error
                    r = {'case': c.cid, 'status': 'engine_error', 'detail': repr(e), 'failures': [], 'wall_s': 0, 'solver_wall_s': 0, 'reach_ok': [], 'covered': []}
                r['_case'] = c
                results.append(r)
                if os.environ.get('VERIF_VERBOSE'):
                    sys.stderr.write('[%s] %-50s %-12s %.1fs %s\n' % (prop, c.cid, r['status'], r['wall_s'], (r.get('detail') or '')[:200].replace('\n', ' ')))
        # --- classify
        violations, known_hits, other_prop, inconclusive, broken = [], [], [], [], []
        for r in results:
            c = r['_case']
            if r['status'] in ('build_error', 'engine_error', 'vacuous'):
                broken.append(r)
                continue
            if r['status'] == 'inconclusive':
                inconclusive.append(r)
                continue
            if r['status'] != 'cex':
                continue
            for f in r['failures']:
                owner = f['owner']
                if f['kind'] == 'unwind' and owner is None:
                    owner = prop  # decided by the native replay below: non-termination/failure => violation, else inconclusive
                if owner != prop and c.co_owned and re.search(c.co_owned, f['tag']):
                    owner = prop
                k = match_known(known, owner, f['tag'], c.cid)
                if k is not None:
                    known_hits.append((k, r, f))
                    continue
                if owner != prop:
                    other_prop.append((owner, r, f))
                    continue
                violations.append((r, f))
        # --- replay violations: one replay file (and one VIOLATION line) per case
        rep_dir = os.path.join(OUT, 'replays', prop)
        vio_lines = []
        mismatch = []
        by_case = {}
        for r, f in violations:
            by_case.setdefault(r['_case'].cid, (r, []))[1].append(f)
        prio = {'assert': 0, 'builtin': 1, 'unwind': 2}
        for cid in sorted(by_case):
            r, fs = by_case[cid]
            c = r['_case']
            fs.sort(key=lambda f: (f.get('inputs') is None, prio.get(f['kind'], 3)))
            os.makedirs(rep_dir, exist_ok=True)
            name = re.sub(r'[^A-Za-z0-9_.-]', '_', cid)[:150]
            path = os.path.join(rep_dir, name + '.json')
            nat, used = None, fs[0]
            for f in fs:
                if f.get('inputs') is None:
                    continue
                nat = native_replay(c, f['inputs'], os.path.join(work, 'replay_' + name))
                used = f
                if nat['outcome'] in ('assert_failed', 'sanitizer', 'timeout', 'crash'):
                    break
            confirmed = nat is not None and nat['outcome'] in ('assert_failed', 'sanitizer', 'timeout', 'crash')
            ub_only = any(f['kind'] == 'builtin' for f in fs)
            rec = {'property': prop, 'case': c.cid, 'harness': c.harness, 'defines': c.defines,
                   'failed': {k: used[k] for k in ('pid', 'desc', 'kind', 'tag', 'line')},
                   'all_failed_tags': sorted(set(f['tag'] for f in fs)),
                   'inputs': used.get('inputs'), 'cbmc_cmd': r.get('cbmc_cmd'), 'build_cmd': r.get('build_cmd'), 'native_replay': nat,
                   'confirmed_natively': confirmed,
                   'repo_head': git_head(REPO), 'how_to_replay': './vcheck %s --replay %s' % (prop, os.path.relpath(path, OUT))}
            with open(path, 'w') as fh:
                json.dump(rec, fh, indent=1)
            if confirmed or ub_only:
                vio_lines.append('VIOLATION property=%s replay=%s' % (prop, os.path.relpath(path, OUT)))
                sys.stderr.write('  case=%s tags=%s native=%s\n' % (c.cid, ','.join(rec['all_failed_tags'])[:300], nat['outcome'] if nat else 'n/a'))
            elif all(f['kind'] == 'unwind' for f in fs):
                r['detail'] = 'unwinding assertion failed and the native replay terminated normally (loop bound too small for this code): %s' % fs[0]['pid']
                inconclusive.append(r)
            else:
                mismatch.append((r, used, nat, path))
        # --- evidence
        n_oblig = len(results)
        n_dis = sum(1 for r in results if r['status'] == 'holds')
        kh_cases = set(id(r) for (_, r, _) in known_hits)
        samples = []
        for r in sorted(results, key=lambda x: x['case'])[:3]:
            samples.append({'case': r['case'], 'desc': r.get('desc'), 'defines': r.get('defines'), 'cbmc_cmd': r.get('cbmc_cmd'),
                            'status': r['status'], 'solver_wall_s': round(r.get('solver_wall_s', 0), 2), 'reach_points_confirmed': r.get('reach_ok')})
        funcs = sorted(set(sum([c.funcs for c in cases], [])))
        ev = {
            'property_id': prop, 'tier': tier, 'seed': seed, 'level': meta.get('level', 'model_checking'),
            'coverage': {
                'evaluations': n_oblig,
                'distinct_nontrivial': len(set(r['case'] for r in results if r.get('reach_ok'))),
                'rule': 'one evaluation = one solver query (cbmc on the real translation unit + harness) for one driver-enumerated case with all operation inputs symbolic; '
                        'a query is non-trivial when its reachability witness (vf_reach assertion) was reported reachable by the solver; distinct by case id',
                'obligations': n_oblig, 'discharged': n_dis,
                'known_finding_cases': len(kh_cases),
                'inconclusive_cases': [{'case': r['case'], 'why': r.get('detail')} for r in inconclusive],
                'broken_cases': [{'case': r['case'], 'status': r['status'], 'why': (r.get('detail') or '')[:500]} for r in broken],
                'other_property_failures': [{'owner': o, 'case': r['case'], 'tag': f['tag']} for (o, r, f) in other_prop][:50],
                'known_findings_hit': sorted(set('%s %s' % (k['property'], k['tag']) for (k, r, f) in known_hits)),
                'unconfirmed_counterexamples': [{'case': r['case'], 'tag': f['tag'], 'native': (nat or {}).get('outcome')} for (r, f, nat, p) in mismatch],
                'functions_encoded': funcs,
                'bounds': meta.get('bounds', {}),
                'outside_claim': meta.get('outside', []),
                'stubs': meta.get('stubs', []),
                'backends': sorted(set(c.backend for c in cases)),
                'solver_time_s': round(sum(r.get('solver_wall_s', 0) for r in results), 1),
                'max_rss_kb': max([r.get('max_rss_kb', 0) for r in results] or [0]),
                'samples': samples,
                'slowest_cases': [{'case': r['case'], 'wall_s': round(r.get('wall_s', 0), 1), 'status': r['status']} for r in sorted(results, key=lambda x: -x.get('wall_s', 0))[:8]],
                'explanation': meta.get('explanation', ''),
                'exhaustive': False,
                'repo_head': git_head(REPO),
            },
            'assumptions': meta.get('assumptions', []),
            'wall_s': round(time.time() - t0, 1),
            'violations': len(vio_lines),
        }
        # a partial run (--only) must not overwrite the evidence of the full check
        evdir = os.path.join(OUT, 'evidence') if not only else os.path.join(OUT, '.work', 'partial-evidence')
        os.makedirs(evdir, exist_ok=True)
        with open(os.path.join(evdir, prop + '.json'), 'w') as fh:
            json.dump(ev, fh, indent=1)
        # --- report
        for k in sorted(set((k['property'], k['tag'], k['text']) for (k, r, f) in known_hits)):
            if k[0] == prop:
                print('KNOWN-FINDING: property=%s %s [%s]' % (k[0], k[2], k[1]))
        for l in vio_lines:
            print(l)
        print('%s %s: %d queries, %d hold, %d known-finding, %d violation(s), %d inconclusive, %d broken, %.0fs' % (
            prop, tier, n_oblig, n_dis, len(kh_cases), len(vio_lines), len(inconclusive), len(broken), time.time() - t0))
        if vio_lines:
            return 1
        if broken or mismatch:
            for r in broken:
                print('BROKEN case=%s status=%s %s' % (r['case'], r['status'], (r.get('detail') or '')[-800:]))
            for (r, f, nat, p) in mismatch:
                print('ENCODING-MISMATCH case=%s tag=%s native=%s (solver counterexample did not reproduce natively; see %s)' % (r['case'], f['tag'], (nat or {}).get('outcome'), p))
            return 2
        if inconclusive:
            for r in inconclusive:
                print('INCONCLUSIVE case=%s %s' % (r['case'], (r.get('detail') or '')[:300]))
            return 2
        return 0
    finally:
        if not keep and not os.environ.get('VERIF_KEEP'):
            shutil.rmtree(work, ignore_errors=True)


def replay_file(prop, path, cases_by_id):
    rec = json.load(open(path))
    c = cases_by_id.get(rec['case'])
    if c is None:
        c = Case(rec['case'], rec['harness'], defines=rec['defines'])
    work = os.path.join(VERIF, '.work', 'replay-%d' % os.getpid())
    try:
        nat = native_replay(c, rec.get('inputs'), work)
        print(json.dumps({k: nat[k] for k in nat if k != 'cmd'}, indent=1))
        if nat['outcome'] in ('assert_failed', 'sanitizer', 'timeout', 'crash'):
            print('VIOLATION property=%s replay=%s' % (prop, path))
            return 1
        return 0
    finally:
        shutil.rmtree(work, ignore_errors=True)
