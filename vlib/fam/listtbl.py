from ..engine import Case

PROP = 'C08'   # functional property owning this family
NAME = 'listtbl'

# op -> (VF_OP, [(VF_VAR, suffix)])
OPS = {'CTOR': (1, [(0, '')]),
       'PUT': (2, [(0, '.put'), (1, '.putstr'), (2, '.putint')]),
       'GET': (3, [(0, '.get'), (1, '.getstr'), (2, '.getint')]),
       'GETMULTI': (4, [(0, '')]),
       'WALK': (5, [(0, '')]),
       'REMOVE': (6, [(0, '')]),
       'REMOVEOBJ': (7, [(0, '')]),
       'SIZE': (8, [(0, '')]),
       'CLEAR': (9, [(0, '')]),
       'SORT': (10, [(0, '')]),
       'LOCK': (11, [(0, '')]),
       'SAVELOAD': (12, [(0, '')])}
FUNCS = {'CTOR': ['qlisttbl', 'qlisttbl_put', 'qlisttbl_free'],
         'PUT': ['qlisttbl_put', 'qlisttbl_putstr', 'qlisttbl_putint', 'newobj', 'insertobj', 'qlisttbl_remove', 'qlisttbl_removeobj', 'qlisttbl_getnext', 'findobj'],
         'GET': ['qlisttbl_get', 'qlisttbl_getstr', 'qlisttbl_getint', 'findobj', 'namematch', 'namecasematch'],
         'GETMULTI': ['qlisttbl_getmulti', 'qlisttbl_freemulti', 'qlisttbl_getnext', 'findobj'],
         'WALK': ['qlisttbl_getnext', 'findobj', 'namematch', 'namecasematch'],
         'REMOVE': ['qlisttbl_remove', 'qlisttbl_removeobj', 'qlisttbl_getnext'],
         'REMOVEOBJ': ['qlisttbl_removeobj', 'qlisttbl_getnext', 'qlisttbl_lock', 'qlisttbl_unlock'],
         'SIZE': ['qlisttbl_size'], 'CLEAR': ['qlisttbl_clear', 'qlisttbl_put'], 'SORT': ['qlisttbl_sort'],
         'LOCK': ['qlisttbl_lock', 'qlisttbl_unlock'],
         'SAVELOAD': ['qlisttbl_save', 'qlisttbl_load', 'qlisttbl_put', 'qurl_encode', 'qurl_decode', '_q_makeword', 'qstrtrim']}
ALLOCATING = ['CTOR', 'PUT', 'GET', 'GETMULTI', 'WALK', 'REMOVEOBJ']
OPTNAMES = ['UNIQUE', 'CASEINSENSITIVE', 'INSERTTOP', 'LOOKUPFORWARD']


def optstr(o):
    return '+'.join(n for i, n in enumerate(OPTNAMES) if (o >> i) & 1) or 'default'


def lt_cases(tier, prefix='c08', extra_defs=None, checks='func', leak=False, ops=None, ns=None, opts=None, saveload_ns=None,
             safety_owner='C11', timeout=None, thin3=False):
    """one query per (operation, variant, number of nodes, option combination)"""
    q = tier == 'quick'
    out = []
    ns = ns if ns is not None else ([0, 1, 2, 3] if q else [0, 1, 2, 3, 4])
    opts = opts if opts is not None else list(range(16))
    timeout = timeout or (600 if q else 1800)  # generous: concurrent SAT processes slow each other down several-fold on this machine
    for op in (ops or [o for o in OPS]):
        code, variants = OPS[op]
        for (var, sfx) in variants:
            if op == 'SAVELOAD':
                nlist = saveload_ns if saveload_ns is not None else [0, 1, 2]
            elif op == 'CTOR':
                nlist = [0]
            else:
                nlist = ns
            for n in nlist:
                for o in opts:
                    if thin3 and n >= 3 and op != 'SAVELOAD' and o not in (0, 5, 10, 15):
                        continue  # quick tier: at 3 nodes only four option combinations (every bit both ways); thorough runs all 16
                    d = {'VF_OP': code, 'VF_N': n, 'VF_VAR': var, 'VF_OPTS': o}
                    d.update(extra_defs or {})
                    uw = n + 7
                    uws = {}
                    if op == 'SAVELOAD':
                        # lines are at most 2+1+9 characters; the per-line loop of load() runs header + n entries (+ exit)
                        uw = 16
                        uws = {'qlisttbl_load.1': n + 3, 'qlisttbl_save.0': n + 2, 'vf_qfile_load.0': 42, 'qlisttbl_clear.0': n + 2, 'qlisttbl_remove.0': 2}
                    out.append(Case('%s.lt.%s%s.n%d.o%d' % (prefix, op, sfx, n, o), 'listtbl.c', d, unwind=uw, unwindset=uws,
                                    checks=checks, leak=leak, funcs=FUNCS[op], safety_owner=safety_owner,
                                    timeout=timeout * 2 if op == 'SAVELOAD' else timeout + 10 * n,  # the engine starts the cases with the largest timeout first
                                    mem_gb=3.5, object_bits=10 if n >= 4 else None,
                                    desc='list table %s%s from any valid %d-entry state, options %s: names (1-2 chars over {a,A,b}), values, hash table, argument name/value/flags symbolic'
                                         % (op, sfx, n, optstr(o))))
    return out


FAILS = [({'VF_FAILMASK': 1}, 'f0'), ({'VF_FAILMASK': 2}, 'f1'), ({'VF_FAILMASK': 4}, 'f2'), ({'VF_FAILMASK': 0, 'VF_FAILFROM': 0}, 'ff0'), ({'VF_FAILMASK': 0, 'VF_FAILFROM': 1}, 'ff1')]
# operations that allocate more than three times (walks with the copy flag, getmulti): later single failures and suffix failures
FAILS_LONG = [({'VF_FAILMASK': 8}, 'f3'), ({'VF_FAILMASK': 16}, 'f4'), ({'VF_FAILMASK': 0, 'VF_FAILFROM': 2}, 'ff2'), ({'VF_FAILMASK': 0, 'VF_FAILFROM': 3}, 'ff3')]
LONG_OPS = ['GETMULTI', 'WALK', 'REMOVEOBJ']


def cases(tier, mode='func'):
    """mode: func (C08) | safety (C11) | copy (C12) | lock (C14) | allocfail (C15)"""
    q = tier == 'quick'
    if mode == 'func':
        out = lt_cases(tier, ops=[o for o in OPS if o != 'SAVELOAD'], thin3=q)
        if q:
            out += lt_cases(tier, ops=['SAVELOAD'], saveload_ns=[0, 1])
            out += lt_cases(tier, ops=['SAVELOAD'], saveload_ns=[2], opts=[0, 4, 11])
        else:
            out += lt_cases(tier, ops=['SAVELOAD'])
        return out
    if mode == 'safety':
        o4 = [0, 5, 10, 15]  # every option bit both ways
        out = lt_cases(tier, prefix='c11', checks='safety', leak=True, ops=[o for o in OPS if o != 'SAVELOAD'],
                       ns=[0, 1, 3] if q else [0, 1, 2, 3], opts=o4)
        if not q:
            out += lt_cases(tier, prefix='c11', checks='safety', leak=True, ops=[o for o in OPS if o not in ('SAVELOAD', 'CTOR')], ns=[4], opts=[15])
        out += lt_cases(tier, prefix='c11', checks='safety', leak=True, ops=['SAVELOAD'], saveload_ns=[0, 1] if q else [0, 1, 2], opts=[0] if q else [0, 15])
        return out
    if mode == 'copy':
        return lt_cases(tier, prefix='c12', checks='safety', ops=['CTOR', 'PUT', 'GET', 'GETMULTI', 'WALK', 'CLEAR'],
                        ns=[1, 2] if q else [1, 2, 3], opts=[0, 15] if q else [0, 5, 10, 15])
    out = []
    if mode == 'lock':
        ns = [0, 2] if q else [0, 1, 2, 3]
        opts = [0, 15]
        ops = [o for o in OPS if o != 'SAVELOAD']
        for fd, fs in FAILS + [({'VF_FAILMASK': 0}, 'nofail')]:
            d = {'VF_TS': None, 'VF_ALLOCFAIL': None}
            d.update(fd)
            these = ops if fs == 'nofail' else [o for o in ops if o in ALLOCATING]
            out += lt_cases(tier, prefix='c14.%s' % fs, extra_defs=d, ops=these, ns=ns, opts=opts)
        for fd, fs in FAILS_LONG:
            d = {'VF_TS': None, 'VF_ALLOCFAIL': None}
            d.update(fd)
            out += lt_cases(tier, prefix='c14.%s' % fs, extra_defs=d, ops=LONG_OPS, ns=[2] if q else [2, 3], opts=opts)
        out += lt_cases(tier, prefix='c14.nofail', extra_defs={'VF_TS': None}, ops=['SAVELOAD'], saveload_ns=[0, 1], opts=[0] if q else [0, 15])
        return out
    if mode == 'allocfail':
        ns = [0, 2] if q else [0, 1, 2, 3]
        opts = [0, 15]
        for fd, fs in FAILS:
            d = {'VF_ALLOCFAIL': None}
            d.update(fd)
            out += lt_cases(tier, prefix='c15.%s' % fs, extra_defs=d, ops=ALLOCATING, ns=ns, opts=opts)
            out += lt_cases(tier, prefix='c15.ts.%s' % fs, extra_defs=dict(d, VF_TS=None), ops=['CTOR'], opts=[0, 15])
        for fd, fs in FAILS_LONG:
            d = {'VF_ALLOCFAIL': None}
            d.update(fd)
            out += lt_cases(tier, prefix='c15.%s' % fs, extra_defs=d, ops=LONG_OPS, ns=[2] if q else [2, 3], opts=opts)
        return out
    raise ValueError(mode)


def info(tier):
    q = tier == 'quick'
    return {'container': 'list table (qlisttbl.c)',
            'bounds': 'pre-state of %s entries (one query per count%s), names 1..2 characters over {a,A,b} (lengths symbolic), values 1..2 symbolic bytes (putint argument -9..99; putstr strings of length 0..2), '
                      'argument name 1..2 characters over the same alphabet or NULL; the four options UNIQUE/CASEINSENSITIVE/INSERTTOP/LOOKUPFORWARD are a per-query constant (all 16 combinations enumerated; '
                      'symbolic option bits cost 20-60x); save/load: %s entries, string values of length 0..2 over all non-NUL bytes, separator "=", encode/decode on; allocation-failure position is a per-query constant'
                      % (('0..3', '; 3 entries under the 4 option combinations none/UNIQUE+INSERTTOP/CASEINSENSITIVE+LOOKUPFORWARD/all', '0..2 (2 entries only for options default, INSERTTOP, UNIQUE+CASEINSENSITIVE+LOOKUPFORWARD)') if q
                         else ('0..4', '', '0..2 (all 16 combinations)')),
            'prestate': 'every doubly linked list of n nodes with first/last/num consistent, each node holding a private name, a private value of size>=1 and hash == H(name) for the stubbed hash function H; '
                        'duplicate and case-variant names anywhere unless UNIQUE, where no two names are equal under the table comparison. Reachable: the options never change after construction, so on an empty table '
                        'put() of the entries in list order (reverse order with INSERTTOP) produces exactly this list (a UNIQUE table with pairwise different keys never replaces), and insertobj() stores H(name)',
            'stubs': ['allocator shim stubs.h (failure position constant per query in C14/C15 runs, never fails otherwise)',
                      'lock model stubs.h (trylock always succeeds for the single logical thread; depth counted)',
                      'qhashmurmur3_32 -> vf_hash: table of 13 solver-chosen 32-bit values indexed injectively by the name (any hash function over the name domain, collisions included)',
                      'strcasecmp -> ASCII case folding model; snprintf("%ld") -> decimal conversion model (putint); atoll -> model (getint)',
                      'save/load file layer: open/close/qtime_gmt_str/qio_printf (directives %s %c) -> in-memory file of 40 bytes; qfile_load -> heap copy of that file + NUL; '
                      'in save/load queries every allocation of non-constant size made by the code under test is a 16-byte block (requests above 16 fail the query) because layout-dependent allocation sizes are not tractable']}
