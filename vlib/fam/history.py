"""Three-call HISTORY queries for the sequence containers (vector, list) through the public API (harness/sched.c -DVF_SEQ3).
The one-step queries start from a hand-built pre-state, so state that one call leaves behind for a later call (cached positions,
flags, stale pointers - anything a change may ADD to the representation) is invisible to them; here the operation kinds are
per-query constants (the driver enumerates every triple over the kind set), arguments are symbolic, and every intermediate result
and content is compared with the ideal sequence."""
import itertools
from ..engine import Case

OPS = {'ADDLAST': 1, 'ADDFIRST': 2, 'ADDAT': 3, 'POPFIRST': 4, 'POPLAST': 5, 'REMOVEAT': 6, 'GETAT': 7, 'SETAT': 8, 'CLEAR': 9, 'TOARRAY': 10, 'SIZE': 11, 'TOSTRING': 12, 'WALKLOCKED': 13, 'REVERSE': 14}
KINDS = {1: ['ADDAT', 'GETAT', 'SETAT', 'REMOVEAT', 'POPLAST', 'REVERSE', 'CLEAR', 'TOARRAY'],
         2: ['ADDAT', 'GETAT', 'REMOVEAT', 'POPFIRST', 'REVERSE', 'CLEAR', 'ADDFIRST', 'WALKLOCKED']}
FUNCS = {1: ['qvector', 'qvector_addat', 'qvector_getat', 'qvector_setat', 'qvector_removeat', 'qvector_popat', 'qvector_reverse', 'qvector_clear', 'qvector_toarray', 'qvector_resize'],
         2: ['qlist', 'qlist_addat', 'qlist_getat', 'qlist_removeat', 'qlist_popat', 'qlist_reverse', 'qlist_clear', 'qlist_tostring', 'qlist_getnext', 'get_obj', 'remove_obj']}


def cases(tier, cont):
    """cont: 1 vector (C10), 2 list (C09)"""
    name = {1: 'vector', 2: 'list'}[cont]
    pid = {1: 'c10', 2: 'c09'}[cont]
    # 4 elements: the smallest length with two interior positions (a position remembered by one call can go stale in the next)
    n0s = [4] if tier == 'quick' else [2, 3, 5]
    out = []
    for n0 in n0s:
        for (a, b, c) in itertools.product(KINDS[cont], repeat=3):
            if tier == 'quick' and len({a, b, c} & {'GETAT', 'TOARRAY', 'TOSTRING', 'WALKLOCKED'}) == 3:
                continue   # three pure observers in a row: thorough tier only
            out.append(Case('%s.hist.%s.%s-%s-%s.n%d' % (pid, name, a, b, c, n0), 'sched.c', {'VF_CONT': cont, 'VF_SEQ3': None, 'VF_OP1': OPS[a], 'VF_OP2': OPS[b], 'VF_OP3': OPS[c], 'VF_N0': n0},
                            unwind=n0 + 7, checks='func', timeout=300, funcs=FUNCS[cont],
                            desc='%s history %s; %s; %s from %d API-appended symbolic elements: indexes (whole int range) and values symbolic; every result and the contents after every call compared with the ideal sequence' % (name, a, b, c, n0)))
    return out


MOPS = {'PUT': 1, 'GET': 2, 'REMOVE': 3, 'SIZE': 4, 'CLEAR': 5}
MF = {3: ['qlisttbl', 'qlisttbl_put', 'qlisttbl_putstr', 'qlisttbl_getstr', 'qlisttbl_remove', 'qlisttbl_getnext', 'qlisttbl_removeobj', 'qlisttbl_clear', 'qlisttbl_size'],
      4: ['qhashtbl', 'qhashtbl_put', 'qhashtbl_putstr', 'qhashtbl_get', 'qhashtbl_getstr', 'qhashtbl_remove', 'qhashtbl_clear', 'qhashtbl_size'],
      5: ['qtreetbl', 'qtreetbl_putobj', 'qtreetbl_getobj', 'qtreetbl_removeobj', 'qtreetbl_clear', 'put_obj', 'remove_obj', 'find_obj']}


def map_cases(tier, cont):
    """cont: 3 list table UNIQUE (C08), 4 hash table range 2 (C05); keys a, c, e collide in one hash-table slot, b is alone"""
    name = {3: 'listtbl', 4: 'hashtbl', 5: 'tree'}[cont]
    pid = {3: 'c08', 4: 'c05', 5: 'c01'}[cont]
    n0s = [3] if tier == 'quick' else [2, 4]
    out = []
    for n0 in n0s:
        for (a, b, c) in itertools.product(sorted(MOPS), repeat=3):
            if len({a, b, c} & {'PUT', 'REMOVE', 'CLEAR'}) == 0:
                if not (cont == 4 and 'GET' in (a, b, c)):
                    continue   # observers only (a hash-table get may reorder a chain, so those triples stay)
            out.append(Case('%s.hist.%s.%s-%s-%s.n%d' % (pid, name, a, b, c, n0), 'schedmap.c', {'VF_CONT': cont, 'VF_SEQ3': None, 'VF_OP1': MOPS[a], 'VF_OP2': MOPS[b], 'VF_OP3': MOPS[c], 'VF_N0': n0},
                            unwind=10, unwindset={'put_obj': 5, 'remove_obj': 5, 'remove_min': 5, 'free_objs': 5}, checks='func', timeout=300, funcs=MF[cont], object_bits=10,
                            desc='%s history %s; %s; %s from %d API-inserted keys out of {a,c,e,b}: keys and values symbolic; every result and the final contents compared with the ideal map' % (name, a, b, c, n0)))
    return out
