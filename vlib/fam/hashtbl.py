from ..engine import Case

PROP = 'C05'   # functional property owning this family
NAME = 'hashtbl'

OPS = {'PUT': 1, 'PUTSTR': 2, 'PUTINT': 3, 'GET': 4, 'GETSTR': 5, 'GETINT': 6, 'REMOVE': 7, 'CLEAR': 8, 'SIZE': 9, 'WALK': 10, 'CTOR': 11, 'DEBUG': 12, 'INVAL': 13}
FUNCS = {'PUT': ['qhashtbl_put'], 'PUTSTR': ['qhashtbl_putstr', 'qhashtbl_put'], 'PUTINT': ['qhashtbl_putint', 'qhashtbl_putstr', 'qhashtbl_put', 'qhashtbl_getint'],
         'GET': ['qhashtbl_get'], 'GETSTR': ['qhashtbl_getstr', 'qhashtbl_get'], 'GETINT': ['qhashtbl_getint', 'qhashtbl_getstr', 'qhashtbl_get'],
         'REMOVE': ['qhashtbl_remove'], 'CLEAR': ['qhashtbl_clear', 'qhashtbl_put'], 'SIZE': ['qhashtbl_size'], 'WALK': ['qhashtbl_getnext', 'qhashtbl_lock', 'qhashtbl_unlock'],
         'CTOR': ['qhashtbl'], 'DEBUG': ['qhashtbl_debug', 'qhashtbl_getnext'],
         'INVAL': ['qhashtbl_put', 'qhashtbl_putstr', 'qhashtbl_putint', 'qhashtbl_get', 'qhashtbl_getstr', 'qhashtbl_getint', 'qhashtbl_remove', 'qhashtbl_getnext', 'qhashtbl_debug']}
MUTATORS = ('PUT', 'PUTSTR', 'PUTINT', 'REMOVE', 'CLEAR')
PUTS = ('PUT', 'PUTSTR', 'PUTINT')   # the expensive queries: the cross-cutting modes give them their own layout list
HBITS_OPS = ('PUT', 'PUTSTR', 'PUTINT', 'CLEAR')   # with a range that is not a power of two these bound the stub hash to 10 bits (see harness)
ALL_OPS = [o for o in OPS if o != 'CTOR']
# number of allocations one call makes at most (per walk step: 2) -> which failure schedules are distinct
ALLOCS = {'PUT': 3, 'PUTSTR': 3, 'PUTINT': 3, 'GET': 1, 'GETSTR': 1, 'GETINT': 1, 'WALK': 3}
FAILS = [({'VF_FAILMASK': 1}, 'f0', 1), ({'VF_FAILMASK': 2}, 'f1', 2), ({'VF_FAILMASK': 4}, 'f2', 3), ({'VF_FAILMASK': 0, 'VF_FAILFROM': 0}, 'ff0', 2), ({'VF_FAILMASK': 0, 'VF_FAILFROM': 1}, 'ff1', 3)]
UNWIND = 12   # chains <= 5 nodes, ranges <= 7, keys <= 2 bytes, values <= 6 bytes, 9 digit comparisons in the snprintf model


def compositions(n, r):
    """every way to distribute n nodes over r slots (ordered chain lengths)"""
    if r == 1:
        return [(n,)]
    out = []
    for c in range(n + 1):
        out += [(c,) + rest for rest in compositions(n - c, r - 1)]
    return out


def layouts(ranges, nmax, nmin=0):
    out = []
    for r in ranges:
        for n in range(nmin, nmax + 1):
            for comp in compositions(n, r):
                out.append((r, comp))
    return out


def L(*names):
    """'r2.c21' -> (2, (2, 1))"""
    out = []
    for nme in names:
        r, c = nme.split('.')
        out.append((int(r[1:]), tuple(int(x) for x in c[1:])))
    return out


# representative layouts for the cross-cutting modes: empty table, single node, chains with head/middle/tail, empty slots before/
# between/after occupied ones
SAFE_Q = L('r1.c0', 'r1.c1', 'r1.c3', 'r2.c11', 'r2.c20', 'r2.c02', 'r2.c21', 'r3.c101', 'r3.c012')
SAFE_Q_PUT = L('r1.c0', 'r1.c3', 'r2.c11', 'r2.c20', 'r3.c101')
SMALL = L('r1.c0', 'r1.c1', 'r1.c2', 'r1.c3', 'r2.c00', 'r2.c11', 'r2.c20', 'r2.c02', 'r2.c21', 'r2.c12', 'r3.c101', 'r3.c012', 'r3.c111')
TINY = L('r1.c2', 'r2.c11', 'r2.c20', 'r3.c012')
BIG = L('r1.c4', 'r2.c22', 'r2.c31', 'r2.c13', 'r3.c211', 'r3.c112', 'r3.c040', 'r4.c1111', 'r4.c2011', 'r4.c0103')


def lname(r, comp):
    return 'r%d.c%s' % (r, ''.join(str(c) for c in comp))


def ht_cases(tier, prefix='c05', extra_defs=None, checks='func', leak=False, ops=None, lay=None, ctor_ranges=None, safety_owner='C11', timeout=None, probe=True, lay_put=None):
    q = tier == 'quick'
    out = []
    lay = lay if lay is not None else (layouts([1, 2, 3], 3) if q else layouts([1, 2, 3, 4], 4))
    timeout = timeout or (120 if q else 600)
    for op in (ops or ALL_OPS + ['CTOR']):
        if op == 'CTOR':
            for r in (ctor_ranges if ctor_ranges is not None else ([0, 1, 2, 3] if q else [0, 1, 2, 3, 4, 7])):
                d = {'VF_OP': OPS[op], 'VF_R': r}
                d.update(extra_defs or {})
                out.append(Case('%s.ht.CTOR.r%d' % (prefix, r), 'hashtbl.c', d, unwind=UNWIND, checks=checks, leak=leak, timeout=timeout,
                                funcs=['qhashtbl', 'qhashtbl_free', 'qhashtbl_clear', 'qhashtbl_put', 'qhashtbl_get', 'qhashtbl_size'], safety_owner=safety_owner,
                                desc='hash table constructor with range %d (0 = default range), then first put/get/size and free; key, value symbolic' % r))
            continue
        for (r, comp) in (lay_put if (lay_put is not None and op in PUTS) else lay):
            n = sum(comp)
            d = {'VF_OP': OPS[op], 'VF_R': r}
            for i, c in enumerate(comp):
                d['VF_C%d' % i] = c
            if probe and op in MUTATORS:
                d['VF_PROBE'] = None
            if r & (r - 1) and op in HBITS_OPS:
                d['VF_HBITS'] = 10
            d.update(extra_defs or {})
            out.append(Case('%s.ht.%s.%s' % (prefix, op, lname(r, comp)), 'hashtbl.c', d, unwind=UNWIND,
                            checks=checks, leak=leak, timeout=timeout, funcs=['qhashtbl', 'qhashtbl_free', 'qhashtbl_clear'] + FUNCS[op], safety_owner=safety_owner,
                            desc='hash table %s from any state with range %d and chain lengths %s (%d keys): key lengths (1..2) and letters, value bytes/sizes (1..3), stub hash function, operation key/value/flags symbolic'
                                 % (op, r, list(comp), n)))
    return out


def fail_cases(tier, prefix, base_defs, lay, ctor_ranges):
    """operation x allocation-failure schedule, only the schedules that differ for that operation"""
    out = []
    for fd, fs, need in FAILS:
        d = dict(base_defs)
        d.update(fd)
        ops = [o for o in ALLOCS if ALLOCS[o] >= need or (fs == 'f0')]
        ops = [o for o in ops if not (fs == 'ff0' and ALLOCS[o] == 1)]   # one allocation: "fail from the 1st" == "fail the 1st"
        out += ht_cases(tier, prefix='%s.%s' % (prefix, fs), extra_defs=d, ops=ops, lay=lay, probe=False)
        out += ht_cases(tier, prefix='%s.%s' % (prefix, fs), extra_defs=d, ops=['CTOR'], ctor_ranges=ctor_ranges)
    return out


def cases(tier, mode='func'):
    """mode: func (C05) | safety (C11) | copy (C12) | lock (C14) | allocfail (C15)"""
    q = tier == 'quick'
    if mode == 'func':
        if q:   # put/putstr/putint with range 3 and 3 keys cost ~20 s each: quick keeps 4 of those 10 layouts, thorough has all
            lay = layouts([1, 2, 3], 3)
            return ht_cases(tier, lay=lay, lay_put=[l for l in lay if not (l[0] == 3 and sum(l[1]) == 3)] + L('r3.c111', 'r3.c012', 'r3.c300', 'r3.c021'))
        return ht_cases(tier)
    if mode == 'safety':
        if q:
            return ht_cases(tier, prefix='c11', checks='safety', leak=True, lay=SAFE_Q, lay_put=SAFE_Q_PUT, ctor_ranges=[0, 2], probe=False)
        return ht_cases(tier, prefix='c11', checks='safety', leak=True, lay=layouts([1, 2, 3], 3) + BIG, lay_put=SMALL + L('r1.c4', 'r2.c22', 'r4.c1111'), probe=False)
    if mode == 'copy':
        return ht_cases(tier, prefix='c12', checks='safety', ops=['PUT', 'PUTSTR', 'PUTINT', 'GET', 'GETSTR', 'WALK', 'CTOR'], lay=TINY if q else SMALL, ctor_ranges=[2], probe=False)
    if mode == 'lock':
        lay = TINY if q else SMALL
        out = fail_cases(tier, 'c14', {'VF_TS': None, 'VF_ALLOCFAIL': None}, lay, [2])
        out += ht_cases(tier, prefix='c14.nofail', extra_defs={'VF_TS': None, 'VF_ALLOCFAIL': None, 'VF_FAILMASK': 0}, lay=lay, ctor_ranges=[0, 2], probe=not q)
        return out
    if mode == 'allocfail':
        lay = TINY if q else SMALL
        out = fail_cases(tier, 'c15', {'VF_ALLOCFAIL': None}, lay, [0, 2])
        out += [c for c in fail_cases(tier, 'c15.ts', {'VF_ALLOCFAIL': None, 'VF_TS': None}, [], [2])]
        return out
    raise ValueError(mode)


def info(tier):
    q = tier == 'quick'
    return {'container': 'hash table (qhashtbl.c)',
            'bounds': 'range %s, %s keys in every distribution over the slots (chain lengths are per-query constants, all compositions enumerated; quick: put/putstr/putint with range 3 and 3 keys on 4 of the 10 distributions; the cross-cutting modes use a representative subset of these layouts: '
                      'empty table, one node, chains of 2-3 with head/middle/tail, empty slots before/between/after occupied ones); keys: NUL-terminated, length 1..2 (symbolic) over a symbolic 5-letter alphabet '
                      '(bytes m^0..m^4, m symbolic >= 8), stored key i starts with letter i, operation/probe keys unconstrained; values 1..3 bytes of symbolic size (putint: |num| < 10^4, i.e. 2..6 bytes); '
                      'stub hash values: any 32-bit word, except put/putstr/putint/clear-then-put with range 3 where they are below 2^10; constructor ranges %s; allocation-failure position is a per-query constant'
                      % (('1..3', '0..3', '{0(default 1000),1,2,3}') if q else ('1..4', '0..4', '{0(default 1000),1,2,3,4,7}')),
            'prestate': 'every state satisfying the representation invariant within the bound, up to renaming of keys: distinct keys, each node in the slot of its (stubbed, arbitrary) hash, node->hash == hash(name), num == node count, '
                        'names/values in exactly sized heap blocks. Reachable because put() inserts at the chain head: putting the keys of one slot in reverse chain order produces any chain order, and slots are independent. '
                        'Stored key i starting with letter i makes the keys distinct by construction; nothing is lost because the table uses a stored name only via strcmp()==0 against the argument, strlen/strdup and the hash, and the hash is an '
                        'arbitrary function here, so behaviour is invariant under length-preserving renamings of keys and every orbit contains such a state',
            'stubs': ['allocator shim stubs.h (failure position constant per query in C14/C15 runs, never fails otherwise)',
                      'lock model stubs.h (trylock always succeeds for the single logical thread; depth counted); pthread_mutex_init additionally asserts a non-NULL mutex',
                      'qhashmurmur3_32 replaced by an arbitrary function: solver-chosen table of 32-bit words indexed injectively by (length, every key byte); the real hash is verified in C18',
                      'snprintf("%PRId64") of putint: decimal formatting model restricted to |num| < 10^4; atoll of getint: blanks+sign+digits model',
                      'fprintf/_q_textout of debug(): no-ops (message text is outside every claim)',
                      'putstrf (vsnprintf formatting into a 1 KiB buffer) is not encoded']}
