"""Apache-style configuration parser (src/extensions/qaconf.c) - line-template family.

cases(tier, mode): mode 'c17' (memory safety / termination on arbitrary input) or 'c20'
(functional: accept/reject, callback stream, unquoting, booleans, count, error line).
The driver enumerates the document SHAPE (line kinds, word counts, quoting styles, word
lengths, escape and padding positions); harness/aconf.c prints the document from the shape
with every byte symbolic within its class and compares with the reference semantics."""
from ..engine import Case

PROP = 'C20'
NAME = 'aconf'

END, WBEG, WEND = -1, -2, -3
CL = dict(PAD=0, ANY=1, NWS=2, NWSGT=3, BARE=4, SQ=5, DQ=6, ESC=7, NAME1=8, NAME1S=9, CMT=10, NWSSL=11, CMTE=12)
K = dict(blank=0, comment=1, opt=2, open=3, close=4, raw=5)
LINESIZE = 32   # QLIBC_VERIF_MAX_LINESIZE used by every query (the real value is 4096)
FUNCS = ['qaconf', 'addoptions', 'setdefhandler', 'setuserdata', 'parse', '_parse_inline', '_seterrmsg', '_free_cbdata',
         '_is_str_number', '_is_str_bool', 'errmsg', 'free_', 'qstrtrim']


def S(cls):
    return -(100 + CL[cls])


def LITC(ch):
    return -(1000 + ord(ch))


def lit(text):
    return [ord(ch) for ch in text]


class Line(object):
    """rendered template line"""
    def __init__(self, kind, pieces, geo, text, nwords=0, maxword=0, maxpad=0, opens=0):
        self.kind, self.pieces, self.geo, self.text = kind, pieces, geo, text   # geo = (lead, trimmed length, copy offset, copy length)
        self.nwords, self.maxword, self.maxpad, self.opens = nwords, maxword, maxpad, opens
        self.nsym = sum(1 for p in pieces if -1000 < p <= -100)
        self.length = sum(1 for p in pieces if p >= 0 or p <= -100)


def _show(p):
    if p <= -1000:
        return chr(-p - 1000)
    if p >= 0:
        return {10: '\\n', 13: '\\r', 9: '\\t'}.get(p, chr(p))
    return {S('PAD'): '_', S('ANY'): '?', S('NWS'): '!', S('NWSGT'): '!', S('NWSSL'): '!', S('BARE'): 'x', S('SQ'): 'x', S('DQ'): 'x', S('ESC'): 'e',
            S('NAME1'): 'n', S('NAME1S'): 'n', S('CMT'): 'c', S('CMTE'): 'c'}.get(p, '')


def word(style, content, first_cls=None):
    """style b|s|d; content string of x (plain byte) / e (escaped byte, quoted styles only) / any other character: that literal"""
    ps = [WBEG]
    q = {'b': None, 's': "'", 'd': '"'}[style]
    if q:
        ps += lit(q)
    for i, ch in enumerate(content):
        if ch == 'e':
            assert style != 'b'
            ps += lit('\\') + [S('ESC')]
        elif ch != 'x':
            ps.append(LITC(ch))
        else:
            cls = {'b': 'BARE', 's': 'SQ', 'd': 'DQ'}[style]
            if i == 0 and style == 'b' and first_cls:
                cls = first_cls
            ps.append(S(cls))
    if q:
        ps += lit(q)
    ps.append(WEND)
    return ps


def directive(kind, words, lead=0, seps=None, gtpad=0, ltpad=0, trail=0, eol='\n'):
    """kind opt|open|close; words = [(style, content), ...] (first = name, must be bare)"""
    seps = seps or [1] * (len(words) - 1)
    ps = [S('PAD')] * lead
    body = []
    if kind == 'open':
        body += lit('<')
    elif kind == 'close':
        body += lit('</')
    body += [S('PAD')] * ltpad
    for i, (st, ct) in enumerate(words):
        if i > 0:
            body += [S('PAD')] * seps[i - 1]
        fc = None
        if i == 0:
            fc = 'NAME1' if kind == 'opt' else ('NAME1S' if kind == 'open' and ltpad == 0 else 'BARE')
        body += word(st, ct, fc)
    if kind != 'opt':
        body += [S('PAD')] * gtpad + lit('>')
    content_len = sum(1 for p in body if p >= 0 or p <= -100)
    front = {'opt': 0, 'open': 1, 'close': 2}[kind]
    back = 0 if kind == 'opt' else 1
    ps += body + [S('PAD')] * trail + lit(eol)
    text = ''.join(_show(p) for p in ps)
    rawlens = []
    for st, ct in words:
        rawlens.append(len(ct) + ct.count('e') + (0 if st == 'b' else 2))
    return Line(K[kind], ps, (lead, content_len, front, content_len - front - back), text, nwords=len(words), maxword=max(rawlens), maxpad=max([lead, trail, gtpad, ltpad] + seps + [1]),
                opens=1 if kind == 'open' else 0)


def blank(npad=0, eol='\n'):
    ps = [S('PAD')] * npad + lit(eol)
    return Line(K['blank'], ps, (npad, 0, 0, -1), ''.join(_show(p) for p in ps), maxpad=npad)


def comment(n=1, lead=0, eol='\n'):
    ps = [S('PAD')] * lead + lit('#') + [S('CMT')] * max(n - 1, 0) + [S('CMTE')] * min(n, 1) + lit(eol)
    return Line(K['comment'], ps, (lead, n + 1, 0, -1), ''.join(_show(p) for p in ps), maxpad=lead)


def raw(prefix, nany, suffix, copy, eol='\n', lead=0, trail=0, opens=0, mid=None):
    """C17: literal prefix, nany arbitrary alphabet bytes, literal suffix.  The first and the last byte of the
    content are never white space (the driver enumerates them as literals or uses a non-blank class) so that the
    trimmed length - hence the size of the line copy - is a constant of the query."""
    ps = [S('PAD')] * lead + lit(prefix) + (mid if mid is not None else [S('ANY')] * nany) + lit(suffix) + [S('PAD')] * trail + lit(eol)
    n = len(prefix) + (len(mid) if mid is not None else nany) + len(suffix)
    return Line(K['raw'], ps, (lead, n, copy[0], copy[1]), ''.join(_show(p) for p in ps), nwords=(n + 1) // 2 + 1, maxword=n, maxpad=max(n, lead, trail), opens=opens)


def cinit(rows, width):
    return '{' + ','.join('{' + ','.join(str(v) for v in (r + [END] * (width - len(r)))) + '}' for r in rows) + '}'


def mk(cid, mode, lines, nopt=1, namelen=1, maxw=2, desc='', timeout=600, extra=None, cut=False):
    width = max(len(l.pieces) for l in lines) + 1
    nsym = sum(l.nsym for l in lines)
    maxlen = max(l.length for l in lines)
    assert maxlen + 1 <= LINESIZE, (cid, maxlen)
    depth = sum(l.opens for l in lines)
    maxwords = max([l.nwords for l in lines] + [1])
    d = {'VF_MODE': 17 if mode == 'c17' else 20, 'VF_NLINES': len(lines), 'VF_TPLMAX': width, 'VF_NSYM': max(nsym, 1),
         'VF_TPL': cinit([l.pieces for l in lines], width), 'VF_KINDS': '{' + ','.join(str(l.kind) for l in lines) + '}',
         'VF_GEO': '{' + ','.join('{%d,%d,%d,%d}' % tuple(l.geo) for l in lines) + '}', 'VF_NOPT': nopt, 'VF_NAMELEN': namelen, 'VF_MAXW': maxw,
         'VF_MAXWORDS': max(3, maxwords if mode == 'c20' else 3), 'QLIBC_VERIF_MAX_LINESIZE': LINESIZE}
    if cut:
        d['VF_CUT'] = None
    d.update(extra or {})
    nl = len(lines)
    uw = {'_parse_inline': depth + 1,
          '_parse_inline.16': nl + 2,                                    # lines of one nesting level (+ EOF)
          '_parse_inline.5': maxwords + 2,                               # words of a line
          '_parse_inline.2': max(l.maxpad for l in lines) + 2,           # blanks before a word
          '_parse_inline.3': max([l.maxword for l in lines] + [1]) + 2,  # bytes of a word
          '_parse_inline.12': min(maxwords, 6) + 1,                      # typed arguments
          '_parse_inline.14': nopt + 1,                                  # option table
          '_is_str_number.0': maxw + 2, 'vf_memmove_a.0': max([l.maxword for l in lines] + [1]) + 1, 'vf_memmove_q.0': maxlen + 2,
          'vf_print_document.0': width + 1, 'vf_print_document.1': nl + 1}  # inner loop has the lower id
    doc = ' | '.join(l.text for l in lines)
    return Case(cid, 'aconf.c', d, unwind=maxlen + 3, unwindset=uw, checks='safety' if mode == 'c17' else 'func',
                safety_owner='C17' if mode == 'c17' else 'C20', unwind_owner='C17' if mode == 'c17' else 'C20', timeout=timeout, funcs=FUNCS, object_bits=10,
                desc=(desc + ' ' if desc else '') + 'template: ' + doc +
                ' (_ blank byte, n/x name/argument byte, e escaped byte, c comment byte, ?/! arbitrary byte of the alphabet / non-blank)')


def cases(tier, mode):
    out = []
    return out


def info(tier):
    return {'container': 'Apache-style parser (qaconf.c)', 'bounds': '', 'prestate': '', 'stubs': []}
