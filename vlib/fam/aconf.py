"""Apache-style configuration parser (src/extensions/qaconf.c) - line-template family.

cases(tier, mode): mode 'c17' (memory safety / termination on arbitrary input) or 'c20'
(functional: accept/reject, callback stream, unquoting, booleans, count, error line).
The driver enumerates the document SHAPE (line kinds, word counts, quoting styles, word
lengths, escape and padding positions); harness/aconf.c prints the document from the shape
with every byte symbolic within its class and compares with the reference semantics."""
from ..engine import Case

PROP = 'C20'
NAME = 'aconf'

END, WBEG, WEND = -1, -2, -3
CL = dict(PAD=0, ANY=1, NWS=2, NWSGT=3, BARE=4, SQ=5, DQ=6, ESC=7, NAME1=8, NAME1S=9, CMT=10, NWSSL=11, CMTE=12)
K = dict(blank=0, comment=1, opt=2, open=3, close=4, raw=5)
LINESIZE = 32   # QLIBC_VERIF_MAX_LINESIZE used by every query (the real value is 4096)
FUNCS = ['qaconf', 'addoptions', 'setdefhandler', 'setuserdata', 'parse', '_parse_inline', '_seterrmsg', '_free_cbdata',
         '_is_str_number', '_is_str_bool', 'errmsg', 'free_', 'qstrtrim']


def S(cls):
    return -(100 + CL[cls])


def LITC(ch):
    return -(1000 + ord(ch))


def lit(text):
    return [ord(ch) for ch in text]


class Line(object):
    """rendered template line"""
    def __init__(self, kind, pieces, geo, text, nwords=0, maxword=0, maxpad=0, opens=0):
        self.kind, self.pieces, self.geo, self.text = kind, pieces, geo, text   # geo = (lead, trimmed length, copy offset, copy length, alternative copy length)
        self.nwords, self.maxword, self.maxpad, self.opens = nwords, maxword, maxpad, opens
        self.nsym = sum(1 for p in pieces if -1000 < p <= -100)
        self.length = sum(1 for p in pieces if p >= 0 or p <= -100)


def _show(p):
    if p <= -1000:
        return chr(-p - 1000)
    if p >= 0:
        return {10: '\\n', 13: '\\r', 9: '\\t'}.get(p, chr(p))
    return {S('PAD'): '_', S('ANY'): '?', S('NWS'): '!', S('NWSGT'): '!', S('NWSSL'): '!', S('BARE'): 'x', S('SQ'): 'x', S('DQ'): 'x', S('ESC'): 'e',
            S('NAME1'): 'n', S('NAME1S'): 'n', S('CMT'): 'c', S('CMTE'): 'c'}.get(p, '')


def word(style, content, first_cls=None):
    """style b|s|d; content string of x (plain byte) / e (escaped byte, quoted styles only) / any other character: that literal"""
    ps = [WBEG]
    q = {'b': None, 's': "'", 'd': '"'}[style]
    if q:
        ps += lit(q)
    for i, ch in enumerate(content):
        if ch == 'e':
            assert style != 'b'
            ps += lit('\\') + [S('ESC')]
        elif ch != 'x':
            ps.append(LITC(ch))
        else:
            cls = {'b': 'BARE', 's': 'SQ', 'd': 'DQ'}[style]
            if i == 0 and style == 'b' and first_cls:
                cls = first_cls
            ps.append(S(cls))
    if q:
        ps += lit(q)
    ps.append(WEND)
    return ps


def directive(kind, words, lead=0, seps=None, gtpad=0, lt='', trail=0, eol='\n'):
    """kind opt|open|close; words = [(style, content), ...] (first = name, must be bare)"""
    seps = seps or [1] * (len(words) - 1)
    ps = [S('PAD')] * lead
    body = []
    if kind == 'open':
        body += lit('<')
    elif kind == 'close':
        body += lit('</')
    body += lit(lt)          # blanks after the bracket are literals: the byte after '<' decides the line kind
    for i, (st, ct) in enumerate(words):
        if i > 0:
            body += [S('PAD')] * seps[i - 1]
        fc = None
        if i == 0:
            fc = 'NAME1' if kind == 'opt' else ('NAME1S' if kind == 'open' and not lt else 'BARE')
        body += word(st, ct, fc)
    if kind != 'opt':
        body += [S('PAD')] * gtpad + lit('>')
    content_len = sum(1 for p in body if p >= 0 or p <= -100)
    front = {'opt': 0, 'open': 1, 'close': 2}[kind]
    back = 0 if kind == 'opt' else 1
    ps += body + [S('PAD')] * trail + lit(eol)
    text = ''.join(_show(p) for p in ps)
    rawlens = []
    for st, ct in words:
        rawlens.append(len(ct) + ct.count('e') + (0 if st == 'b' else 2))
    return Line(K[kind], ps, (lead, content_len, front, content_len - front - back, content_len - front - back - gtpad if gtpad else -1), text, nwords=len(words) + (1 if gtpad else 0),
                maxword=max(rawlens), maxpad=max([lead, trail, gtpad, len(lt)] + seps + [1]),
                opens=1 if kind == 'open' else 0)


def blank(npad=0, eol='\n'):
    ps = [S('PAD')] * npad + lit(eol)
    return Line(K['blank'], ps, (npad, 0, 0, -1, -1), ''.join(_show(p) for p in ps), maxpad=npad)


def comment(n=1, lead=0, eol='\n'):
    ps = [S('PAD')] * lead + lit('#') + [S('CMT')] * max(n - 1, 0) + [S('CMTE')] * min(n, 1) + lit(eol)
    return Line(K['comment'], ps, (lead, n + 1, 0, -1, -1), ''.join(_show(p) for p in ps), maxpad=lead)


def raw(prefix, nany, suffix, copy, eol='\n', lead=0, trail=0, opens=0, mid=None):
    """C17: literal prefix, nany arbitrary alphabet bytes, literal suffix.  The first and the last byte of the
    content are never white space (the driver enumerates them as literals or uses a non-blank class) so that the
    trimmed length - hence the size of the line copy - is a constant of the query."""
    ps = [S('PAD')] * lead + lit(prefix) + (mid if mid is not None else [S('ANY')] * nany) + lit(suffix) + [S('PAD')] * trail + lit(eol)
    n = len(prefix) + (len(mid) if mid is not None else nany) + len(suffix)
    return Line(K['raw'], ps, (lead, n, copy[0], copy[1], -1), ''.join(_show(p) for p in ps), nwords=(n + 1) // 2 + 1, maxword=n, maxpad=max(n, lead, trail), opens=opens)


# call sites through function pointers get their exact target sets (goto-instrument --restrict-function-pointer);
# otherwise CBMC tries every function with a compatible signature at each callback (addoptions() among them)
FPTR = [('_parse_inline', 1, 'vf_strcmp,vf_strcasecmp'), ('_parse_inline', 2, 'vf_strcmp,vf_strcasecmp'),
        ('_parse_inline', 3, 'vf_cb,vf_defcb'), ('_parse_inline', 4, 'vf_cb,vf_defcb'), ('_parse_inline', 5, 'vf_defcb'),
        ('vf_harness', 1, 'addoptions'), ('vf_harness', 2, 'setdefhandler'), ('vf_harness', 3, 'setuserdata'), ('vf_harness', 4, 'parse'),
        ('vf_harness', 5, 'errmsg'), ('vf_harness', 6, 'free_')]
INSTRUMENT = [sum([['--restrict-function-pointer', '%s.function_pointer_call.%d/%s' % t] for t in FPTR], [])]


def _words(pieces):
    out, cur = [], None
    for p in pieces:
        if p == WBEG:
            cur = []
        elif p == WEND:
            out.append(cur)
            cur = None
        elif cur is not None:
            cur.append(p)
    return out


def cinit(rows, width):
    return '{' + ','.join('{' + ','.join(str(v) for v in (r + [END] * (width - len(r)))) + '}' for r in rows) + '}'


def mk(cid, mode, lines, nopt=1, namelen=1, maxw=2, desc='', timeout=600, extra=None, cut=False):
    width = max(len(l.pieces) for l in lines) + 1
    nsym = sum(l.nsym for l in lines)
    maxlen = max(l.length for l in lines)
    assert maxlen + 1 <= LINESIZE, (cid, maxlen)
    depth = sum(l.opens for l in lines)
    maxwords = max([l.nwords for l in lines] + [1])
    d = {'VF_MODE': 17 if mode == 'c17' else 20, 'VF_NLINES': len(lines), 'VF_TPLMAX': width, 'VF_NSYM': max(nsym, 1),
         'VF_TPL': cinit([l.pieces for l in lines], width), 'VF_KINDS': '{' + ','.join(str(l.kind) for l in lines) + '}',
         'VF_GEO': '{' + ','.join('{%d,%d,%d,%d,%d}' % tuple(l.geo) for l in lines) + '}', 'VF_NOPT': nopt, 'VF_NAMELEN': namelen, 'VF_MAXW': maxw,
         'VF_MAXWORDS': max(3, maxwords if mode == 'c20' else 3), 'QLIBC_VERIF_MAX_LINESIZE': LINESIZE}
    if cut:
        d['VF_CUT'] = None
    d.update(extra or {})
    assert all(sum(1 for p in w if p <= -100) <= maxw for l in lines for w in _words(l.pieces)) or mode == 'c17', cid
    nl = len(lines)
    uw = {'_parse_inline': depth + 1,
          '_parse_inline.16': nl + 2,                                    # lines of one nesting level (+ EOF)
          '_parse_inline.5': maxwords + 2,                               # words of a line
          '_parse_inline.2': max(l.maxpad for l in lines) + 2,           # blanks before a word
          '_parse_inline.3': max([l.maxword for l in lines] + [1]) + 2,  # bytes of a word
          '_parse_inline.12': min(maxwords, 6) + 1,                      # typed arguments
          '_parse_inline.14': nopt + 1,                                  # option table
          '_is_str_number.0': maxw + 2, 'vf_memmove_a.0': max([l.maxword for l in lines] + [1]) + 1, 'vf_memmove_q.0': maxlen + 2,
          'vf_vsnprintf.0': 40,
          'vf_print_document.0': width + 1, 'vf_print_document.1': nl + 1}  # inner loop has the lower id
    doc = ' | '.join(l.text for l in lines)
    return Case(cid, 'aconf.c', d, unwind=max(maxlen + 3, 9), unwindset=uw, checks='safety' if mode == 'c17' else 'func',
                safety_owner='C17', unwind_owner='C17' if mode == 'c17' else 'C20', timeout=timeout, funcs=FUNCS, object_bits=10, instrument=INSTRUMENT,
                desc=(desc + ' ' if desc else '') + 'template: ' + doc +
                ' (_ blank byte, n/x name/argument byte, e escaped byte, c comment byte, ?/! arbitrary byte of the alphabet / non-blank)')


ALPHA = ['a', '1', '"', "'", '\\', ' ', '\t', '<', '>', '/', '#']      # the syntactically significant bytes (VF class CL_ANY)
NAMES = {'"': 'dq', "'": 'sq', '\\': 'bs', ' ': 'sp', '\t': 'tab', '<': 'lt', '>': 'gt', '/': 'sl', '#': 'hash', 'a': 'a', '1': '1', '': 'none'}


def nm(text):
    return '-'.join(NAMES.get(ch, ch) for ch in text) if text else 'none'


def raw_plain(first, nany, last_sym=True, **kw):
    """line not starting with '<' or '#': literal first byte, nany arbitrary bytes, one arbitrary non-blank last byte"""
    mid = [S('ANY')] * nany + ([S('NWS')] if last_sym else [])
    n = len(first) + len(mid)
    return raw(first, 0, '', (0, n), mid=mid, **kw)


def raw_bracket(second, nany, last='>', gtpad=0, **kw):
    """'<' second-byte(literal) arbitrary* [blanks] last(literal).  The byte after '<' decides open/close, the last byte
    decides whether the bracket is complete: both are template constants.  The last arbitrary byte is not a blank
    (blanks in front of '>' are explicit: gtpad), so the length of the line copy is known up to those blanks."""
    mid = [S('ANY')] * max(nany - 1, 0) + [S('NWS')] * min(nany, 1) + [S('PAD')] * gtpad
    n = 1 + len(second) + len(mid) + len(last)
    alt = -1
    if last != '>':
        copy = (0, -1)                       # "Missing closing bracket": no copy is made
        opens = 0
    else:
        front = 2 if second[:1] == '/' else 1
        copy = (front, n - front - 1)
        opens = 0 if second[:1] == '/' else 1
        blanks = gtpad
        if nany == 0 and gtpad == 0:
            body = second[1:] if second[:1] == '/' else second
            blanks = len(body) - len(body.rstrip(' \t'))
        if blanks:
            alt = copy[1] - blanks           # with / without the blanks in front of '>'
    ln = raw('<' + second, 0, last, copy, opens=opens, mid=mid, **kw)
    ln.geo = ln.geo[:4] + (alt,)
    return ln


def c17_cases(tier):
    out = []
    q = tier == 'quick'

    def add(name, lines, nopt=1, cut=False, timeout=600):
        out.append(mk('c17.aconf.' + name + ('.cut' if cut else ''), 'c17', lines, nopt=nopt, cut=cut, timeout=timeout,
                      desc='safety+termination%s;' % (' up to the first error report' if cut else '')))
    # ---- one line
    for first in ['a', '"', "'", '\\', '>', '/']:
        add('l1.plain.%s.n0' % nm(first), [raw_plain(first, 0, last_sym=False)])
        for n in ([0, 1] if q else [0, 1, 2, 3]):
            add('l1.plain.%s.n%d' % (nm(first), n + 1), [raw_plain(first, n)])
    for second in (['a', '/', '"', ' '] if q else [c for c in ALPHA if c != '>']):
        for n in ([0, 1] if q else ([0, 1, 2, 3] if second in ('a', '/', '"') else [0, 1, 2])):
            add('l1.bracket.%s.n%d' % (nm(second), n), [raw_bracket(second, n)])
    add('l1.bracket.empty', [raw_bracket('', 0)])
    add('l1.bracket.gtgt', [raw_bracket('>', 0)])
    add('l1.bracket.a.n1.gtpad1', [raw_bracket('a', 1, gtpad=1)])
    add('l1.bracket.sl.n1.gtpad2', [raw_bracket('/', 1, gtpad=2)])
    for second, n, last in [('', 0, ''), ('a', 0, ''), ('/', 1, 'a'), ('a', 1, '"')]:
        add('l1.nobracket.%s.n%d.%s' % (nm(second), n, nm(last)), [raw_bracket(second, n, last=last)])
    add('l1.comment', [comment(2)])
    add('l1.blank', [blank(2)])
    add('l1.plain.a.n2.noeol', [raw_plain('a', 1, eol='')])
    add('l1.plain.a.n2.crlf', [raw_plain('a', 1, eol='\r\n', lead=1, trail=1)])
    add('l1.plain.a.n1.nopt2', [raw_plain('a', 0)], nopt=2)
    if not q:
        add('l1.words5.argvgrow', [raw('a a a a ', 0, '', (0, 10), mid=[S('ANY'), S('NWS')])])
    if q:
        return out
    # ---- two lines (thorough)
    for first in ['a', '"']:
        for f2 in ['a', "'", '\\']:
            add('l2.plain.%s.%s' % (nm(first), nm(f2)), [raw_plain(first, 1), raw_plain(f2, 1)])
    add('l2.comment.plain', [comment(1), raw_plain('a', 1)])
    add('l2.blank.plain', [blank(1), raw_plain('a', 1)])
    # sections with inner lines: executions up to the first error report (see VF_CUT in the harness)
    for n in [0, 1]:
        add('l2.open.plain.n%d' % n, [raw_bracket('a', n), raw_plain('a', 1)], cut=True)
        add('l2.open.open.n%d' % n, [raw_bracket('a', n), raw_bracket('a', 0)], cut=True)
    for n in [0, 1]:
        for m in [1, 2]:
            add('l2.open.close.n%d.m%d' % (n, m), [raw_bracket('a', n), raw_bracket('/', m)], cut=True)
    add('l3.open.plain.close', [raw_bracket('a', 0), raw_plain('a', 1), raw_bracket('/', 1)], cut=True)
    return out


ARGS1Q = [('b', 'x'), ('b', 'xx'), ('s', ''), ('s', 'x'), ('s', 'xx'), ('d', 'x'), ('d', 'e'), ('d', 'xe'), ('s', 'ex')]
ARGS1T = [('b', 'x'), ('b', 'xx'), ('s', ''), ('s', 'x'), ('s', 'xx'), ('s', 'e'), ('s', 'xe'), ('s', 'ex'), ('s', 'ee'),
          ('d', ''), ('d', 'x'), ('d', 'xx'), ('d', 'e'), ('d', 'xe'), ('d', 'ex'), ('d', 'ee')]


def wn(w):
    return w[0] + (w[1] or '0')


def c20_cases(tier):
    out = []
    q = tier == 'quick'
    D = directive

    def add(name, lines, nopt=1, cut=False, timeout=600, namelen=1, maxw=2, desc=''):
        out.append(mk('c20.aconf.' + name + ('.cut' if cut else ''), 'c20', lines, nopt=nopt, cut=cut, timeout=timeout, namelen=namelen, maxw=maxw,
                      desc=(desc + ' ' if desc else '') + ('functional, executions up to the first error report;' if cut else 'functional, complete executions;')))
    N = ('b', 'a')           # directive name: literal first byte keeps the line kind a constant of the query
    # ---- one option line: argument count x quoting style x escapes
    add('opt.args0', [D('opt', [N])])
    add('opt.args0.nopt2', [D('opt', [N])], nopt=2)
    add('opt.args0.nopt3', [D('opt', [N])], nopt=3)
    for w in (ARGS1Q if q else ARGS1T):
        add('opt.args1.%s' % wn(w), [D('opt', [N, w])])
    pairs = [(('b', 'x'), ('b', 'x')), (('b', 'xx'), ('d', 'x')), (('s', 'xe'), ('b', 'x')), (('d', 'x'), ('s', 'x'))] if q else \
        [(w1, w2) for w1 in ARGS1T for w2 in ARGS1T]
    for w1, w2 in pairs:
        add('opt.args2.%s.%s' % (wn(w1), wn(w2)), [D('opt', [N, w1, w2])])
    # every typed argument position: the per-position type bits reach argument 5 (MAX_TYPECHECK); 6 arguments: the last one is beyond the typed positions
    add('opt.args5.typed', [D('opt', [N] + [('b', 'x')] * 5)], desc='five one-byte arguments, take flags symbolic: every typed position;')
    if not q:
        add('opt.args6.typed', [D('opt', [N] + [('b', 'x')] * 6)], desc='six one-byte arguments: the sixth lies beyond the typed positions;')
    add('opt.args1.bx.nopt2', [D('opt', [N, ('b', 'x')])], nopt=2)
    add('opt.args1.bx.name2', [D('opt', [('b', 'ax'), ('b', 'x')])], namelen=2)
    if not q:
        add('opt.args1.bx.nopt3', [D('opt', [N, ('b', 'x')])], nopt=3)
        add('opt.args2.bx.bx.nopt2', [D('opt', [N, ('b', 'x'), ('b', 'x')])], nopt=2)
        add('opt.args3.bx.bx.bx', [D('opt', [N, ('b', 'x'), ('b', 'x'), ('b', 'x')])])
        add('opt.args4.argvgrow', [D('opt', [N, ('b', 'x'), ('b', 'x'), ('b', 'x'), ('b', 'x')])], desc='five words: the argv array is re-allocated;')
        add('opt.args1.bxxx', [D('opt', [N, ('b', 'xxx')])], maxw=3, desc='3-byte argument (float forms d.d);')
        add('opt.args1.dxxx', [D('opt', [N, ('d', 'xxx')])], maxw=3)
        add('opt.args1.dxe.name2.nopt2', [D('opt', [('b', 'ax'), ('d', 'xe')])], namelen=2, nopt=2)
    # layout: indentation, wide separators, trailing blanks, line endings
    add('opt.layout.lead1', [D('opt', [N, ('b', 'x')], lead=1)])
    add('opt.layout.trail1', [D('opt', [N, ('b', 'x')], trail=1)])
    add('opt.layout.sep2', [D('opt', [N, ('b', 'x')], seps=[2])])
    add('opt.layout.crlf', [D('opt', [N, ('b', 'x')], eol='\r\n')])
    add('opt.layout.noeol', [D('opt', [N, ('d', 'x')], eol='')])
    if not q:
        add('opt.layout.lead2.sep2.trail2', [D('opt', [N, ('s', 'x'), ('b', 'x')], lead=2, seps=[2, 2], trail=2)])
        add('opt.layout.lead1.q', [D('opt', [N, ('d', 'xe')], lead=1, trail=1, eol='\r\n')])
    # ---- booleans: every spelling length
    for n in range(1, 6):
        add('bool.b%d' % n, [D('opt', [N, ('b', 'x' * n)])], maxw=5, desc='boolean spellings of length %d (any case) and near misses;' % n)
    add('bool.d2', [D('opt', [N, ('d', 'xx')])], maxw=5)
    add('bool.s3', [D('opt', [N, ('s', 'xxx')])], maxw=5)
    if not q:
        add('bool.b2.b3', [D('opt', [N, ('b', 'xx'), ('b', 'xxx')])], maxw=5)
        add('bool.b5.nopt2', [D('opt', [N, ('b', 'xxxxx')])], maxw=5, nopt=2)
    # ---- comments, blank lines, several options
    add('doc.comment.opt', [comment(2), D('opt', [N, ('b', 'x')])])
    add('doc.blank.opt', [blank(1), D('opt', [N, ('b', 'x')])])
    add('doc.opt.comment', [D('opt', [N, ('b', 'x')]), comment(1, lead=1)])
    add('doc.opt.opt', [D('opt', [N, ('b', 'x')]), D('opt', [N])], nopt=2)
    add('doc.comment', [comment(2)])
    add('doc.blank', [blank(2)])
    if not q:
        add('doc.opt.opt.opt', [D('opt', [N, ('b', 'x')]), D('opt', [N, ('d', 'x')]), D('opt', [N])], nopt=2)
        add('doc.opt.blank.opt', [D('opt', [N]), blank(0), D('opt', [N, ('s', 'x')])], nopt=2)
    # ---- sections
    C = ('b', 'x')           # name in a closing tag: fully symbolic
    add('sec.close.stray', [D('close', [C])])
    add('sec.opt.close.stray', [D('opt', [N]), D('close', [C])])
    add('sec.open.unclosed', [D('open', [N])])
    add('sec.open.arg.unclosed', [D('open', [N, ('d', 'x')])])
    add('sec.open.opt.unclosed', [D('open', [N]), D('opt', [N, ('b', 'x')])], nopt=2, cut=True)
    add('sec.open.close', [D('open', [N]), D('close', [C])], cut=True)
    add('sec.open.arg.close', [D('open', [N, ('b', 'x')]), D('close', [C])], cut=True)
    add('sec.open.arg.close.nopt2', [D('open', [N, ('d', 'x')]), D('close', [C])], cut=True, nopt=2)
    add('sec.open.opt.close', [D('open', [N]), D('opt', [N, ('b', 'x')]), D('close', [C])], cut=True, nopt=2)
    add('sec.open.close.opt', [D('open', [N]), D('close', [C]), D('opt', [N, ('b', 'x')])], cut=True, nopt=2)
    if not q:
        add('sec.open.open.unclosed', [D('open', [N]), D('open', [N])], nopt=2, cut=True)
        add('sec.opt.open.close', [D('opt', [N, ('b', 'x')]), D('open', [N, ('s', 'x')]), D('close', [C])], cut=True, nopt=2)
        add('sec.open.args2.close', [D('open', [N, ('b', 'x'), ('d', 'xe')]), D('close', [C])], cut=True)
        add('sec.open.comment.close', [D('open', [N, ('b', 'x')]), comment(1), D('close', [C])], cut=True)
        add('sec.open.blank.close', [D('open', [N, ('b', 'x')]), blank(1), D('close', [C])], cut=True)
        add('sec.open.opt.close.nopt3', [D('open', [N, ('b', 'x')]), D('opt', [N, ('b', 'x')]), D('close', [C])], cut=True, nopt=3)
        add('sec.open.open.close.close', [D('open', [N]), D('open', [N, ('b', 'x')]), D('close', [C]), D('close', [C])], cut=True, nopt=2)
        add('sec.open.close.name2', [D('open', [('b', 'ax')]), D('close', [('b', 'xx')])], cut=True, namelen=2)
        add('sec.open.dxe.opt.sx.close', [D('open', [N, ('d', 'xe')]), D('opt', [N, ('s', 'x')]), D('close', [C])], cut=True, nopt=2)
        add('sec.open.close.open.close', [D('open', [N]), D('close', [C]), D('open', [N, ('b', 'x')]), D('close', [C])], cut=True, nopt=2)
        add('sec.open.opt.opt.close', [D('open', [N, ('b', 'x')]), D('opt', [N, ('b', 'x')]), D('opt', [N]), D('close', [C])], cut=True, nopt=2)
        add('sec.layout.lt', [D('open', [N, ('b', 'x')], lt=' ', lead=1), D('close', [C], lt='\t', lead=1)], cut=True)
    # blanks before '>' (own cases: see the finding in the report)
    add('gtpad.open.b.1', [D('open', [N, ('b', 'x')], gtpad=1), D('close', [C])], cut=True)
    add('gtpad.open.d.1', [D('open', [N, ('d', 'x')], gtpad=1), D('close', [C])], cut=True)
    if not q:
        add('gtpad.open.b.2', [D('open', [N, ('b', 'x')], gtpad=2), D('close', [C])], cut=True)
        add('gtpad.close.1', [D('open', [N]), D('close', [C], gtpad=1)], cut=True)
    return out


def cases(tier, mode):
    if mode == 'c17':
        return c17_cases(tier)
    if mode == 'c20':
        return c20_cases(tier)
    return []


def info(tier):
    q = tier == 'quick'
    return {
        'container': 'Apache-style parser (qaconf.c)',
        'bounds': ('line templates, %s; words: name (1-2 bytes, first byte a literal) + at most %s arguments of at most 2 content bytes (booleans: up to 5), '
                   'bare / single-quoted / double-quoted, backslash escapes at every position; blanks (space or tab, symbolic) before, between and after words, CRLF / no final newline; '
                   'option table of 1..3 entries; every padding, name, argument and comment byte, the whole take word (32 bits), section id (< 2^31) and scope mask (32 bits), callback present or NULL, '
                   'default handler set or not, parser flags, callback verdicts and fopen failure are symbolic. '
                   'C17: per line a literal first byte (and, after <, a literal second and last byte) and up to %d arbitrary bytes of the alphabet {a 1 " \' \\ space tab < > / #}. '
                   'Line buffer reduced from 4096 to %d bytes through the QLIBC_VERIF_MAX_LINESIZE hook (the 4 KiB array alone exhausts 8 GB in the propositional encoding). '
                   'Documents whose sections contain lines are followed up to the first error report (VF_CUT); flat documents and a lone <section> are followed to the end (return value, clean-up).')
                  % ('C17 one line, C20 1-3 lines with at most one section' if q else 'C17 1-3 lines, C20 1-4 lines, nesting depth <= 2', '2' if q else '4', 2 if q else 4, LINESIZE),
        'prestate': ('input family = documents printed by the harness from a driver-chosen shape (line kinds, word counts, quoting style and length of every word, positions of escapes and blanks); '
                     'a fresh qaconf() object with addoptions() of a symbolic table, optional setdefhandler(), setuserdata(); one parse() call'),
        'stubs': ['fopen/fgets/fclose: in-memory file, fgets delivers the next template line (fopen failure symbolic)',
                  'vsnprintf: writes "E"; captures the %d line-number argument of the "%s:%d ..." parse-error prefix (message text outside the claim)',
                  'strcmp / strcasecmp: byte loops (ASCII case folding), terminator tested on the second operand',
                  'memmove: two byte-loop instances (down for qstrtrim, up for the tokenizer), direction asserted',
                  'strdup: exactly sized heap copy; for the line copy length and content are asserted equal to the template prediction, then built from it (assert-then-use)',
                  'strlen (inside qaconf.c only) and the qstrtrim call site: real computation, result asserted equal to the template prediction, prediction used (assert-then-use); the real qstrtrim() of qstring.c runs',
                  'goto-instrument --restrict-function-pointer: cmpfunc in {strcmp, strcasecmp models}, callbacks in {recording callback, default handler}, qaconf_t methods = their implementations',
                  'CBMC built-in malloc/realloc/free/memset/memcpy/strcpy models; malloc does not fail'],
    }
