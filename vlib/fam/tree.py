import math, os, sys
from ..engine import Case, VERIF
sys.path.insert(0, os.path.join(VERIF, 'gen'))
import llrb

PROP = 'C01'
NAME = 'tree'
OPS = {'SELFCHECK': 12, 'PUT': 1, 'REMOVE': 2, 'GET': 3, 'MIN': 4, 'MAX': 5, 'SIZE': 6, 'CLEAR': 7, 'CTOR': 8, 'WALK': 9, 'WALK_AFTER': 10, 'NEAREST': 11}
FUNCS = {'PUT': ['qtreetbl_putobj', 'qtreetbl_put', 'put_obj', 'new_obj', 'rotate_left', 'rotate_right', 'flip_color', 'qmemdup'],
         'REMOVE': ['qtreetbl_removeobj', 'qtreetbl_remove', 'remove_obj', 'remove_min', 'move_red_left', 'move_red_right', 'fix', 'find_min'],
         'GET': ['qtreetbl_getobj', 'qtreetbl_get', 'find_obj', 'qtreetbl_byte_cmp'], 'MIN': ['qtreetbl_find_min'], 'MAX': ['qtreetbl_find_max'],
         'SIZE': ['qtreetbl_size'], 'CLEAR': ['qtreetbl_clear', 'free_objs'], 'CTOR': ['qtreetbl', 'qtreetbl_free'],
         'WALK': ['qtreetbl_getnext', 'reset_iterator'], 'WALK_AFTER': ['qtreetbl_getnext', 'reset_iterator', 'put_obj', 'remove_obj'], 'NEAREST': ['qtreetbl_find_nearest', 'qtreetbl_getnext'],
         'SELFCHECK': ['qtreetbl_check', 'node_check_root', 'node_check_red', 'node_check_black', 'node_check_llrb']}
_cache = {}


def shapes(nmax):
    if nmax not in _cache:
        _cache[nmax] = [llrb.encode(t) for t in llrb.trees_upto(nmax)]
    return _cache[nmax]


def arr(xs):
    return '{' + ','.join(str(x) for x in xs) + '}' if xs else '{0}'


def tree_case(prefix, sh, op, extra=None, checks='func', leak=False, timeout=600, mem_gb=8, safety_owner='C11', unwind_owner=None, sfx=''):
    n, h = sh['n'], sh['height']
    d = {'VF_N': n, 'VF_ROOT': sh['root'], 'VF_LEFT': arr(sh['left']), 'VF_RIGHT': arr(sh['right']), 'VF_RED': arr(sh['red']), 'VF_HEIGHT': h,
         'VF_OP': OPS[op], 'VF_CMPBOUND': int(math.floor(2 * math.log2(n + 1) + 1e-9))}
    d.update(extra or {})
    rec = h + 3
    uw = {'put_obj': rec, 'remove_obj': rec, 'remove_min': rec, 'free_objs': rec + 1,
          'node_check_red': rec + 1, 'node_check_black': rec + 1, 'node_check_llrb': rec + 1}
    return Case('%s.tree.%s.%s%s' % (prefix, op, sh['id'], sfx), 'tree.c', d, unwind=2 * n + 9, unwindset=uw, checks=checks, leak=leak,
                timeout=timeout, mem_gb=mem_gb, object_bits=10, funcs=['qtreetbl'] + FUNCS[op], safety_owner=safety_owner, unwind_owner=unwind_owner,
                desc='tree %s from LLRB shape %s (n=%d, height %d)%s: key, values, epoch stamps and next links symbolic' % (op, sh['code'], n, h, sfx))


CMPS = [({}, ''), ({'VF_CMP': 1}, '.ucmp'), ({'VF_CMP': 2}, '.rcmp')]


def func_cases(tier, prefix='c01', ops=('PUT', 'REMOVE', 'GET', 'MIN', 'MAX', 'SIZE', 'CLEAR'), extra=None, nmax=None, **kw):
    q = tier == 'quick'
    nmax = nmax if nmax is not None else (5 if q else 7)
    out = []
    for sh in shapes(nmax):
        for op in ops:
            variants = [({}, '')]
            if op in ('PUT', 'REMOVE', 'GET'):
                variants = list(CMPS)
                if sh['n'] <= (4 if q else 5):
                    variants += [({'VF_OPKSZ': 2}, '.k2'), ({'VF_KSZ': 2, 'VF_OPKSZ': 2}, '.kk2'), ({'VF_KSZ': 2, 'VF_OPKSZ': 1}, '.k21'),
                                 ({'VF_API': 1, 'VF_KSZ': 2, 'VF_OPKSZ': 2}, '.str')]
                if op in ('REMOVE', 'GET'):
                    variants += [({'VF_PDSZ': 1, 'VF_PDSZ_ODD': 3}, '.mix')]
                if op == 'PUT' and sh['n'] <= (4 if q else 5):
                    variants += [({'VF_DSZ': 2}, '.d2'), ({'VF_DSZ': 3, 'VF_PDSZ': 1}, '.d3')]
            elif op in ('MIN', 'MAX'):
                variants = [({}, ''), ({'VF_CMP': 2}, '.rcmp')]
            if sh['n'] > (6 if q else 8) and op in ('SIZE', 'CLEAR', 'MIN', 'MAX'):
                continue
            for vd, sfx in variants:
                e = dict(vd)
                e.update(extra or {})
                out.append(tree_case(prefix, sh, op, e, sfx=sfx, **kw))
    out.append(tree_case(prefix, shapes(0)[0], 'CTOR', extra, **kw))
    return out


FAILS = [({'VF_FAILMASK': 1}, 'f0'), ({'VF_FAILMASK': 2}, 'f1'), ({'VF_FAILMASK': 4}, 'f2'), ({'VF_FAILMASK': 8}, 'f3'), ({'VF_FAILMASK': 0, 'VF_FAILFROM': 0}, 'ff0'), ({'VF_FAILMASK': 0, 'VF_FAILFROM': 1}, 'ff1')]


def cases(tier, mode='func'):
    q = tier == 'quick'
    if mode == 'func':
        return func_cases(tier)
    if mode == 'safety':
        return func_cases(tier, prefix='c11', checks='safety', leak=True, nmax=3 if q else 5)
    if mode == 'copy':
        cc = {'VF_COPYCHK': None}
        mixed = [tree_case('c12', sh, 'REMOVE', {'VF_C12': None, 'VF_PDSZ': 1, 'VF_PDSZ_ODD': 3}, sfx='.mix') for sh in shapes(4 if q else 5) if sh['n'] >= 2]
        return mixed + func_cases(tier, prefix='c12', checks='safety', ops=('PUT', 'GET', 'MIN', 'MAX'), nmax=3 if q else 5, extra=cc) + \
            [tree_case('c12', sh, 'NEAREST', cc, checks='safety') for sh in shapes(3 if q else 5)] + [tree_case('c12', sh, 'WALK', cc, checks='safety') for sh in shapes(3 if q else 4)]
    out = []
    if mode == 'lock':
        for fd, fs in (FAILS if not q else [f for f in FAILS if f[1] in ('f0', 'f1', 'ff0')]) + [({'VF_FAILMASK': 0}, 'nofail')]:
            d = {'VF_TS': None, 'VF_ALLOCFAIL': None}
            d.update(fd)
            out += func_cases(tier, prefix='c14.%s' % fs, extra=d, nmax=2 if q else 3, ops=('PUT', 'REMOVE', 'GET', 'MIN', 'MAX', 'SIZE', 'CLEAR'))
            out += [tree_case('c14.%s' % fs, sh, op, d) for sh in shapes(2 if q else 3) for op in ('WALK', 'NEAREST')]
        return out
    if mode == 'allocfail':
        for fd, fs in (FAILS if not q else [f for f in FAILS if f[1] in ('f0', 'f1', 'f2', 'ff0')]):
            d = {'VF_ALLOCFAIL': None, 'VF_SHAPECHK': None}
            d.update(fd)
            out += func_cases(tier, prefix='c15.%s' % fs, extra=d, nmax=3 if q else 4, ops=('PUT', 'REMOVE', 'GET', 'MIN', 'MAX', 'CLEAR'))
            out += [tree_case('c15.ts.%s' % fs, shapes(0)[0], 'CTOR', dict(d, VF_TS=None))]
            out += [tree_case('c15.%s' % fs, sh, op, d) for sh in shapes(2 if q else 3) for op in ('WALK', 'NEAREST')]
            # a failed insertion below a 4-node that was split on the way down (needs >= 5 nodes): contents, counters AND shape afterwards
            if fs in ('f0', 'f1', 'f2'):
                out += [tree_case('c15.%s' % fs, sh, 'PUT', d) for sh in shapes(6 if q else 7) if sh['n'] >= (4 if q else 5)]
        return out
    raise ValueError(mode)


def shape_cases(tier):
    """C02: (1) the one-step put/remove queries with the independent shape checker compiled in (invariant closure);
    (2) lookup cost through a counting comparator; (3) qtreetbl_check() agrees with the independent checker on every valid
    tree up to one node above the step bound (so it accepts every post-state of (1)) and on EVERY coloured binary tree up to a
    small size, valid or not; (4) for tiny trees the library check is also asserted directly on the symbolic post-state."""
    q = tier == 'quick'
    nstep = 5 if q else 7
    out = []
    for sh in shapes(nstep):
        for op in ('PUT', 'REMOVE'):
            for vd, sfx in ([({}, ''), ({'VF_CMP': 2}, '.rcmp')] if sh['n'] <= 4 else [({}, '')]):
                e = dict(vd, VF_SHAPECHK=None)
                if sh['n'] <= 3:
                    e['VF_LIBCHK'] = None
                out.append(tree_case('c02', sh, op, e, sfx=sfx))
        out.append(tree_case('c02', sh, 'GET', {'VF_CMP': 1, 'VF_SHAPECHK': None}, sfx='.ucmp'))
        # the same bound through the string API (qtreetbl_get: key = the characters plus the terminator), hits and misses
        out.append(tree_case('c02', sh, 'GET', {'VF_CMP': 1, 'VF_SHAPECHK': None, 'VF_API': 1, 'VF_KSZ': 2, 'VF_OPKSZ': 2}, sfx='.ucmp.str'))
        if sh['n'] <= (6 if q else 7):   # 5 nodes: smallest tree in which a failed insertion below a split 4-node needs the fix-up rotations on the way up
            for fd, fs in FAILS[:3]:
                out.append(tree_case('c02', sh, 'PUT', dict(fd, VF_ALLOCFAIL=None, VF_SHAPECHK=None, VF_SHAPE_OWNER_C02=None), sfx='.' + fs))
    for sh in shapes(nstep + 1):
        out.append(tree_case('c02', sh, 'SELFCHECK', {'VF_VALID': 1}, sfx='.valid'))
    for n in range(0, (3 if q else 4) + 1):
        for t in llrb.all_coloured(n):
            if llrb.is_valid(t):
                continue
            sh = llrb.encode(t)
            out.append(tree_case('c02', sh, 'SELFCHECK', {'VF_VALID': 0}, sfx='.invalid'))
    out.append(tree_case('c02', shapes(0)[0], 'CTOR', {'VF_SHAPECHK': None}))
    return out


def walk_cases(tier):
    """C03"""
    q = tier == 'quick'
    out = [tree_case('c03', sh, 'WALK', {}, unwind_owner='C03') for sh in shapes(5 if q else 7)]
    out += [tree_case('c03', sh, 'WALK', {'VF_CMP': 2}, unwind_owner='C03', sfx='.rcmp') for sh in shapes(3 if q else 5)]
    out += [tree_case('c03', sh, 'WALK_AFTER', {}, unwind_owner='C03', sfx='.abandon') for sh in shapes(5 if q else 7)]
    for sh in shapes(4 if q else 6):
        for op in ('PUT', 'REMOVE', 'NEAREST'):
            out.append(tree_case('c03', sh, op, {'VF_TIDCHK': None}, sfx='.tidinv'))
    out.append(tree_case('c03', shapes(0)[0], 'CTOR', {}))
    return out


def nearest_cases(tier):
    """C04"""
    q = tier == 'quick'
    out = []
    for sh in shapes(5 if q else 7):
        out.append(tree_case('c04', sh, 'NEAREST', {}, unwind_owner='C04'))
        if sh['n'] <= (3 if q else 5):
            out.append(tree_case('c04', sh, 'NEAREST', {'VF_CMP': 2}, unwind_owner='C04', sfx='.rcmp'))
            out.append(tree_case('c04', sh, 'NEAREST', {'VF_OPKSZ': 2}, unwind_owner='C04', sfx='.k2'))
    # the continuation clause presumes "no walk is unfinished" = "no node carries the current epoch"; that a walk which ran to
    # its end re-establishes exactly this state is an obligation of the WALK queries (tag C04.cont.pre), run here under C04
    for sh in shapes(4 if q else 6):
        out.append(tree_case('c04', sh, 'WALK', {}, unwind_owner='C04', sfx='.endstate'))
    return out


def info(tier):
    q = tier == 'quick'
    return {'container': 'tree table (qtreetbl.c)',
            'bounds': 'every valid 2-3-4 LLRB (shape, colouring) with <= %d nodes for C01/C02 (%d shapes), <= %d for safety, smaller for copy/lock/allocfail; keys 1-2 bytes, values 1-3 bytes; recursion unwound to height+3'
                      % ((5, len(shapes(5)), 3) if q else (7, len(shapes(7)), 5)),
            'prestate': 'every tree satisfying the LLRB234 invariant (superset of the reachable trees; the invariant is shown inductive by these same queries), keys fixed by in-order rank (order isomorphism), '
                        'epoch stamps/next links arbitrary (subject to: no stamp exceeds the table epoch, for C03/C04)',
            'stubs': ['allocator shim stubs.h', 'lock model stubs.h', 'CBMC models of memcmp/memcpy/strlen']}
