"""printf-style entry points built on DYNAMIC_VSPRINTF (harness/strf.c): the buffer management around vsnprintf, with the
format fixed to "%s" and vsnprintf replaced by a model of that conversion.  The argument length is an allocation size, hence a
per-query constant; the first buffer of DYNAMIC_VSPRINTF is scaled from 1024 to 8 bytes by the guarded hook QLIBC_VERIF_VSPRINTF_INITSIZE
(a fully symbolic 1 KiB argument gave no verdict in 300 s), so the fit boundary of the first, second and third round of the
doubling loop is at 8, 16, 32.  In addition the lengths are DERIVED FROM THE CURRENT SOURCE: every integer constant c
(2 < c <= 4096) that occurs in the text of the entry point, of the static helpers it calls, or of the macro contributes
c-1, c, c+1 (thorough: also 2c-1, 2c, 2c+1), plus the small lengths 0..3.  Arguments up to 64 bytes are symbolic in every byte;
longer ones (only when the source mentions such a constant) keep the first 2 and last 8 bytes symbolic."""
import os
import re
from ..engine import Case, REPO

KINDS = {
    'grow': (1, 'C09', 'src/containers/qgrow.c', 'qgrow_addstrf', ['qgrow_addstrf', 'qgrow_addstr', 'qlist_addat', 'qlist_tostring', 'qlist_toarray']),
    'strdupf': (2, 'C19', 'src/utilities/qstring.c', 'qstrdupf', ['qstrdupf']),
    'ht': (3, 'C05', 'src/containers/qhashtbl.c', 'qhashtbl_putstrf', ['qhashtbl_putstrf', 'qhashtbl_putstr', 'qhashtbl_put', 'qhashtbl_getstr']),
    'tree': (4, 'C01', 'src/containers/qtreetbl.c', 'qtreetbl_putstrf', ['qtreetbl_putstrf', 'qtreetbl_putstr', 'qtreetbl_put', 'qtreetbl_getstr']),
    'lt': (5, 'C08', 'src/containers/qlisttbl.c', 'qlisttbl_putstrf', ['qlisttbl_putstrf', 'qlisttbl_putstr', 'qlisttbl_put', 'qlisttbl_getstr']),
}
PREFIX = {'C09': 'c09', 'C19': 'c19', 'C05': 'c05', 'C01': 'c01', 'C08': 'c08'}


def _body(text, name):
    """source text of the definition of function `name` (brace matched), '' if not found"""
    for m in re.finditer(r'\b%s\s*\(' % re.escape(name), text):
        i = text.find(')', m.end())
        j = text.find('{', i)
        semi = text.find(';', i)
        if j < 0 or (0 <= semi < j):
            continue   # a declaration or a call
        depth, k = 0, j
        while k < len(text):
            if text[k] == '{':
                depth += 1
            elif text[k] == '}':
                depth -= 1
                if depth == 0:
                    return text[m.start():k + 1]
            k += 1
    return ''


def _macro(text, name):
    m = re.search(r'#define\s+%s\b(.*?[^\\])\n' % re.escape(name), text, flags=re.S)
    return m.group(1) if m else ''


def _strip_comments(t):
    t = re.sub(r'/\*.*?\*/', ' ', t, flags=re.S)
    t = re.sub(r'//[^\n]*', ' ', t)
    return re.sub(r'"(\\.|[^"\\])*"', ' ', t)


def constants(fn_file, fn):
    """integer constants in the entry point's definition, in the static helpers it calls in the same file (one level) and in DYNAMIC_VSPRINTF"""
    src = open(os.path.join(REPO, fn_file)).read()
    body = _strip_comments(_body(src, fn))
    texts = [body]
    for callee in set(re.findall(r'\b([A-Za-z_]\w*)\s*\(', body)):
        if callee != fn and re.search(r'\bstatic\b[^;{]*\b%s\s*\(' % re.escape(callee), src):
            texts.append(_strip_comments(_body(src, callee)))
    qi = open(os.path.join(REPO, 'src/internal/qinternal.h')).read()
    texts.append(_strip_comments(_macro(qi, 'DYNAMIC_VSPRINTF')))
    cs = set()
    for t in texts:
        for tok in re.findall(r'\b(0[xX][0-9a-fA-F]+|\d+)[uUlL]*\b', t):
            v = int(tok, 0) if not (tok.startswith('0') and tok.isdigit() and len(tok) > 1) else int(tok, 8)
            if 2 < v <= 4096:
                cs.add(v)
    return sorted(cs)


INIT = 8   # first DYNAMIC_VSPRINTF buffer, scaled from 1024 by the guarded hook QLIBC_VERIF_VSPRINTF_INITSIZE


def lengths(tier, fn_file, fn):
    q = tier == 'quick'
    ls = {0, 1, 3} if q else {0, 1, 2, 3, 5}
    # the scaled first buffer: fit boundary of round 1, of round 2 (doubling) and (thorough) of round 3
    for c in (INIT, 2 * INIT) + (() if q else (4 * INIT,)):
        ls |= {c - 1, c, c + 1}
    # whatever other buffer sizes / thresholds the current source text mentions
    for c in constants(fn_file, fn):
        ls |= {c - 1, c, c + 1}
        if not q and 2 * c + 1 <= 4100:
            ls |= {2 * c - 1, 2 * c, 2 * c + 1}
    return sorted(x for x in ls if 0 <= x <= 4100)


def cases(tier, owner):
    out = []
    for kname, (kind, own, fn_file, fn, funcs) in KINDS.items():
        if own != owner:
            continue
        for sl in lengths(tier, fn_file, fn):
            out.append(Case('%s.strf.%s.len%d' % (PREFIX[own], kname, sl), 'strf.c', {'VF_KIND': kind, 'VF_SLEN': sl, 'QLIBC_VERIF_VSPRINTF_INITSIZE': INIT}, unwind=sl + 4,
                            checks='safety', leak=True, timeout=300 if tier == 'quick' else 900, funcs=funcs + ['DYNAMIC_VSPRINTF (macro)'], safety_owner=own, family='strf',
                            co_owned=r'^C11\.strf\.',
                            desc='%s(.., "%%s", s) with a %d-byte argument (every byte symbolic), then read back through the public API: byte-exact text, exact length, '
                                 'terminator, temporaries released' % (fn, sl)))
    return out


def info(tier, owner):
    d = {}
    for kname, (kind, own, fn_file, fn, funcs) in KINDS.items():
        if own == owner:
            d[fn] = {'constants_found_in_source': constants(fn_file, fn), 'argument_lengths': lengths(tier, fn_file, fn)}
    return {'bounds': 'printf-style entry points (format fixed to "%s", one string argument, all bytes symbolic), argument lengths derived from the integer constants of the '
                      'current source text: ' + '; '.join('%s: %s' % (k, v['argument_lengths']) for k, v in sorted(d.items())),
            'stubs': ['vsnprintf (CBMC build only): model of the "%s" conversion with the C99 contract - at most size-1 bytes and a terminator are written, the untruncated length '
                      'is returned; any other format string fails an assertion of the model; the native replay uses the C library\'s vsnprintf'],
            'outside': ['every format string other than "%s" and formatting itself (the C library\'s job)', 'argument lengths not derived from a source constant',
                        'the production first-buffer size 1024 (scaled to %d by the guarded hook; the loop is size-generic)' % INIT, 'the printf-style entry points applied to non-empty containers (the plain put/add they delegate to is covered by the step queries)']}
