import os, sys
from ..engine import Case, VERIF
sys.path.insert(0, os.path.join(VERIF, 'gen'))
import hasharr as gen

PROP = 'C06'
NAME = 'hasharr'
OPS = {'PUT': 1, 'GET': 2, 'REMOVE': 3, 'REMOVE_IDX': 4, 'WALK': 5, 'CLEAR': 6, 'SIZE': 7, 'CTOR': 8}
KNOBS = {'QLIBC_VERIF_HASHARR_NAMESIZE': 2, 'QLIBC_VERIF_HASHARR_DATASIZE': 3}
D, E = 3, 24   # first-block and extension-block capacity with the scaled knobs (E = sizeof(pair) = 3+2+pad+2+16)
FUNCS = {'PUT': ['qhasharr_put_by_obj', 'put_data', 'get_idx', 'find_avail', 'copy_slot', 'remove_slot', 'remove_data', 'qhasharr_remove_by_idx'],
         'GET': ['qhasharr_get_by_obj', 'get_idx', 'get_data', 'qhasharr'], 'REMOVE': ['qhasharr_remove_by_obj', 'qhasharr_remove_by_idx', 'get_idx', 'remove_data', 'copy_slot'],
         'REMOVE_IDX': ['qhasharr_remove_by_idx', 'remove_data', 'copy_slot', 'remove_slot'], 'WALK': ['qhasharr_getnext', 'get_data'],
         'CLEAR': ['qhasharr_clear'], 'SIZE': ['qhasharr_size'], 'CTOR': ['qhasharr', 'qhasharr_free']}
_cache = {}


def layouts(M):
    if M not in _cache:
        _cache[M] = [gen.encode(M, ch) for ch in gen.layouts(M)]
    return _cache[M]


def arr(xs):
    return '{' + ','.join(str(x) for x in xs) + '}' if len(xs) else '{0}'


def layout_defs(L):
    M = L['M']
    kind = {'F': 0, 'L': 1, 'C': 2, 'E': 3}
    ch = L['chains']
    d = {'VF_M': M, 'VF_NK': len(ch), 'VF_KIND': arr([kind[k] for k in L['kind']]), 'VF_COUNT': arr(L['count']), 'VF_HF': arr(L['hf']), 'VF_LINK': arr(L['link']),
         'VF_USED': L['used']}
    if ch:
        d['VF_CH_KEYSLOT'] = arr([sl[0] for (_, sl) in ch])
        d['VF_CH_HOME'] = arr([h for (h, _) in ch])
        d['VF_CH_LEN'] = arr([len(sl) for (_, sl) in ch])
        d['VF_CH_SLOTS'] = '{' + ','.join(arr(sl + [-1] * (M - len(sl))) for (_, sl) in ch) + '}'
    else:
        d['VF_CH_KEYSLOT'] = '{0}'
        d['VF_CH_HOME'] = '{0}'
        d['VF_CH_LEN'] = '{0}'
        d['VF_CH_SLOTS'] = '{' + arr([-1] * M) + '}'
    d.update(KNOBS)
    return d


def mk(prefix, L, op, extra, sfx, more=None, checks='func', leak=False, timeout=600, safety_owner='C07'):
    d = layout_defs(L)
    d['VF_OP'] = OPS[op]
    d['VF_ALLOC_MAX'] = D + (L['M'] - 1) * E
    d.update(extra or {})
    d.update(more or {})
    M = L['M']
    return Case('%s.ha.%s.%s%s' % (prefix, op, L['id'], sfx), 'hasharr.c', d, unwind=max(M * E + 6, 30), unwindset={'find_avail.0': M + 1, 'remove_data.0': M + 1, 'put_data.0': M + 2, 'get_idx.0': M + 1, 'qhasharr_remove_by_idx.0': M + 1, 'get_data.0': M + 1, 'get_data.1': M + 1, 'qhasharr_getnext.0': M + 2, 'qhasharr_put_by_obj': 2}, checks=checks, leak=leak, timeout=timeout, object_bits=10,
                funcs=FUNCS[op], safety_owner=safety_owner,
                desc='static hash table %s on layout %s (M=%d, %d keys, %d used)%s: key bytes/lengths, value bytes, block fills, raw hash symbolic' % (op, L['id'], M, L['nkeys'], L['used'], sfx))


def vsizes(M, tier, few=False):
    if few:
        # D: a value of exactly one full key slot (replacing a chained value by it must release the old extension blocks)
        return [1, D + 1, D + E + 1] if M <= 2 else [1, D, D + 1]
    base = [1, D, D + 1]
    if tier == 'thorough':
        base += [D + E, D + E + 1]
    elif M <= 2:
        base += [D + E + 1]
    if tier == 'thorough' and M >= 4:
        base += [D + 2 * E + 1]
    return base


def step_cases(tier, prefix='c06', ops=('PUT', 'GET', 'REMOVE', 'REMOVE_IDX', 'WALK', 'CLEAR', 'SIZE'), Ms=None, filt=None, few=False, replace_only=False, extra=None, **kw):
    q = tier == 'quick'
    Ms = Ms or ([2] if q else [2, 3])
    out = []
    for M in Ms:
        for L in layouts(M):
            if filt and not filt(L):
                continue
            homes = [h for (h, _) in L['chains']]
            for op in ops:
                if op in ('PUT', 'GET', 'REMOVE'):
                    for H in range(M):
                        kcs = [-1] + [i for i, h in enumerate(homes) if h == H]
                        for kc in kcs:
                            if op == 'PUT' and replace_only and kc < 0 and L['used'] < M - 1:
                                continue  # quick C07: new-key puts only where they must relocate/chain into the last free slots
                            if op == 'PUT':
                                for vs in vsizes(M, tier, few):
                                    out.append(mk(prefix, L, op, {'VF_OPHOME': H, 'VF_KCLASS': kc, 'VF_VSZ': vs}, '.h%d.k%s.v%d' % (H, 'new' if kc < 0 else kc, vs), more=extra, **kw))
                            elif op == 'GET' and kc >= 0:
                                # get() allocates the value size and copies from the matching slot: key lengths, the final-block fill of that key
                                # and the first key byte (tag) are per-query constants so that the slot index is decided during symbolic execution
                                for kl in (1, 2, 3):
                                    for fill, fs in ((1, 'f1'), (2, 'f2'), (255, 'ffull')):
                                        fills = [0] * len(homes)
                                        fills[kc] = fill
                                        out.append(mk(prefix, L, op, {'VF_OPHOME': H, 'VF_KCLASS': kc, 'VF_FILLS': arr(fills), 'VF_KLENS': arr([kl] * len(homes)), 'VF_KEYTAG': None},
                                                      '.h%d.k%d.kl%d.%s' % (H, kc, kl, fs), more=extra, **kw))
                            elif op == 'GET':
                                for (kl, okl) in ((1, 1), (2, 2), (3, 3), (3, 2), (2, 3)) if homes else ((1, 1), (1, 3)):
                                    out.append(mk(prefix, L, op, {'VF_OPHOME': H, 'VF_KCLASS': kc, 'VF_KLENS': arr([kl] * max(1, len(homes))), 'VF_OPKLEN': okl, 'VF_KEYTAG': None,
                                                                  'VF_FILLS': arr([1] * max(1, len(homes)))}, '.h%d.knew.kl%d.o%d' % (H, kl, okl), more=extra, **kw))
                            else:
                                out.append(mk(prefix, L, op, {'VF_OPHOME': H, 'VF_KCLASS': kc}, '.h%d.k%s' % (H, 'new' if kc < 0 else kc), more=extra, **kw))
                elif op == 'REMOVE_IDX':
                    for i in range(M):
                        out.append(mk(prefix, L, op, {'VF_IDX': i}, '.i%d' % i, more=extra, **kw))
                elif op == 'WALK' and homes:
                    # getnext() allocates name and value copies: key lengths and final fills are per-query constants
                    for kl in (1, 2, 3):
                        for fill, fs in ((1, 'f1'), (255, 'ffull')):
                            out.append(mk(prefix, L, op, {'VF_KLENS': arr([kl] * len(homes)), 'VF_FILLS': arr([fill] * len(homes)), 'VF_KEYTAG': None}, '.kl%d.%s' % (kl, fs), more=extra, **kw))
                else:
                    out.append(mk(prefix, L, op, {}, '', more=extra, **kw))
    return out


def ctor_cases(tier, prefix='c07'):
    out = []
    L = layouts(3)[0]
    for knobs, sfx in ((KNOBS, '.scaled'), ({}, '.prod')):
        slot = 40 if knobs else 84
        for ms in sorted(set([0, 1, 12, 12 + slot - 1, 12 + slot, 127, 128, 129, 12 + 2 * slot, 12 + 3 * slot, 12 + 3 * slot + 5, 12 + 4 * slot])):
            if ms == 0:
                continue
            d = layout_defs(L)
            for k in KNOBS:
                d.pop(k, None)
            d.update(knobs)
            d.update({'VF_OP': OPS['CTOR'], 'VF_MEMSIZE': ms, 'VF_M': 5})
            out.append(Case('%s.ha.CTOR%s.mem%d' % (prefix, sfx, ms), 'hasharr.c', d, unwind=max(4 * 84 + 20, 30) if not knobs else 5 * 40 + 20, checks='safety', leak=True, timeout=600, object_bits=10,
                            funcs=FUNCS['CTOR'], safety_owner='C07', desc='qhasharr(memory, %d) on an exactly sized region, %s knobs' % (ms, 'scaled' if knobs else 'production')))
    return out


def chained3(L):
    """quick-tier subset of the M=3 layouts: at most two keys, one of them with an extension block, first key slot 0
    (the slot graph code is symmetric under cyclic rotation of the slot indexes: find_avail/get_idx scan circularly from the home
    slot; the thorough tier runs all 53 layouts)"""
    ch = L['chains']
    return L['M'] == 3 and 1 <= len(ch) <= 2 and any(len(sl) >= 2 for (_, sl) in ch) and ch[0][1][0] == 0


def foreign3(L):
    """M=3 layouts with two used slots in which some slot holds a block that is NOT at home there (a collision key, or the
    extension block of a chained value) and one slot is free: a new key whose home is that slot must relocate the foreign block
    (first key slot 0: cyclic-rotation representatives)"""
    ch = L['chains']
    if not (L['M'] == 3 and L['used'] == 2 and ch and ch[0][1][0] == 0):
        return False
    return any(sl[0] != h for (h, sl) in ch) or any(len(sl) >= 2 for (_, sl) in ch)


def foreign_home(c):
    """keep the PUT queries whose operation key is at home in a slot occupied by a foreign block"""
    d = c.defines
    H = d['VF_OPHOME']
    kinds = [int(x) for x in d['VF_KIND'].strip('{}').split(',')]
    return kinds[H] in (2, 3)


def cases(tier, mode='func'):
    q = tier == 'quick'
    if mode == 'func':
        if q:
            # M=2 cannot replace a chained value (a full table refuses every put): the two single-key M=3 representatives cover
            # "multi-slot value replaced by a shorter / by another multi-slot value" (exact bytes, length, freed slots)
            one_chain = lambda L: chained3(L) and L['nkeys'] == 1 and L['used'] == 2
            return step_cases(tier) + step_cases(tier, ops=('REMOVE', 'REMOVE_IDX'), Ms=[3], filt=chained3) + \
                [c for c in step_cases(tier, ops=('PUT',), Ms=[3], filt=one_chain, few=True) if '.k0.' in c.cid] + \
                [c for c in step_cases(tier, ops=('PUT',), Ms=[3], filt=foreign3, few=True) if '.knew.' in c.cid and foreign_home(c)]
        return step_cases(tier)
    if mode == 'c07':
        if q:
            # well-formedness + region safety where it is at stake, sized for the every-change budget:
            #  M=3, layouts with a chained value: promotion of a collision key / removal by index (all 16 representatives), replacement of
            #  a chained value by a short one (the two single-key representatives); M=2: relocated-copy GET, CLEAR, REMOVE(_IDX) and
            #  PUT on layouts with at most one key under the pointer checks; the constructor
            e = {'VF_C07': None}
            one_chain = lambda L: chained3(L) and L['nkeys'] == 1 and L['used'] == 2
            return step_cases(tier, prefix='c07', ops=('REMOVE', 'REMOVE_IDX'), Ms=[3], filt=chained3, extra=e) + \
                [c for c in step_cases(tier, prefix='c07', ops=('PUT',), Ms=[3], filt=one_chain, few=True, extra=e) if '.k0.v1' in c.cid] + \
                step_cases(tier, prefix='c07', checks='safety', ops=('GET', 'CLEAR', 'REMOVE_IDX', 'REMOVE'), Ms=[2], extra=e) + \
                [c for c in step_cases(tier, prefix='c07', checks='safety', ops=('PUT',), Ms=[2], few=True, filt=lambda L: L['nkeys'] <= 1, extra=e) if not c.cid.endswith('.v28')] + ctor_cases(tier)
        return step_cases(tier, prefix='c07', checks='safety', ops=('PUT', 'REMOVE', 'REMOVE_IDX', 'GET', 'CLEAR'), Ms=[2, 3], extra={'VF_C07': None}) + ctor_cases(tier)
    if mode == 'safety':
        cs = step_cases(tier, prefix='c11', checks='safety', leak=True, Ms=[2], safety_owner='C11', few=True, filt=(lambda L: L['nkeys'] <= 1) if q else None, ops=('PUT', 'WALK') if q else ('PUT', 'GET', 'REMOVE', 'REMOVE_IDX', 'WALK', 'CLEAR'))
        if q:   # lookups/removals on every M=2 layout (two keys sharing the last slot as home exercise the wrap-around of the probe loop)
            cs += step_cases(tier, prefix='c11', checks='safety', leak=True, Ms=[2], safety_owner='C11', ops=('GET', 'REMOVE'))
        if q:   # multi-slot puts under the full safety flags cost 150-350 s each: thorough tier (and C07) only
            cs = [c for c in cs if '.PUT.' not in c.cid or c.cid.endswith('.v1')]
        return cs
    if mode == 'copy':
        e = {'VF_C12': None}
        cs = step_cases(tier, prefix='c12', checks='safety', ops=('PUT', 'GET', 'WALK'), Ms=[2], safety_owner='C11', few=True, filt=(lambda L: L['nkeys'] <= 1) if q else None, extra=e)
        if q:
            cs = [c for c in cs if '.PUT.' not in c.cid or c.cid.endswith('.v1')]
        # replacing a chained (multi-slot) value by a short one must leave exactly the new bytes and length (needs a free slot: M=3)
        one_chain = lambda L: chained3(L) and L['nkeys'] == 1 and L['used'] == 2
        cs += [c for c in step_cases(tier, prefix='c12', ops=('PUT',), Ms=[3], filt=one_chain, few=True, extra=e) if '.k0.' in c.cid]
        return cs
    if mode in ('lock', 'allocfail'):
        return []
    raise ValueError(mode)


def info(tier):
    q = tier == 'quick'
    Ms = [2] if q else [2, 3]
    return {'container': 'static hash table (qhasharr.c)',
            'bounds': 'capacity M in %s with ALL %s well-formed slot-graph layouts; knobs scaled by the guarded hook to NAMESIZE=2, DATASIZE=3 (extension block %d bytes): keys 1..3 bytes (both sides of the in-slot limit), '
                      'value sizes %s (both sides of every slot boundary); operation-key home slot and key class are per-query constants' % (Ms, [len(layouts(m)) for m in Ms], E, vsizes(3, tier)),
            'prestate': 'every image satisfying the well-formedness predicate (each occupied slot in exactly one chain, chains terminated, back-links, non-final blocks full, leading count = keys with that home, '
                        'collision keys\' home is a leading slot, distinct keys, header counters) - a superset of the reachable images; unused bytes arbitrary',
            'stubs': ['qhashmurmur3_32 replaced by a stub returning any value congruent to the per-query home slot, asserting it is called on exactly the key bytes', 'qhashmd5 replaced by an injective encoding of (length, bytes) for keys <= 3 bytes (equal digest <=> equal key)',
                      'allocator shim stubs.h (never fails here)']}
