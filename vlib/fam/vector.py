from ..engine import Case

PROP = 'C10'   # functional property owning this family
NAME = 'vector'

OPS = {'ADD': 1, 'GET': 2, 'SET': 3, 'POP': 4, 'REMOVE': 5, 'REVERSE': 6, 'RESIZE': 7, 'CLEAR': 8, 'TOARRAY': 9, 'WALK': 10, 'SIZE': 11, 'CTOR': 12, 'GROW2': 13}
FUNCS = {'ADD': ['qvector_addat', 'qvector_addfirst', 'qvector_addlast', 'qvector_resize'], 'GET': ['qvector_getat', 'qvector_getfirst', 'qvector_getlast', 'get_at'],
         'SET': ['qvector_setat', 'qvector_setfirst', 'qvector_setlast'], 'POP': ['qvector_popat', 'qvector_popfirst', 'qvector_poplast', 'remove_at'],
         'REMOVE': ['qvector_removeat', 'qvector_removefirst', 'qvector_removelast', 'remove_at'], 'REVERSE': ['qvector_reverse'], 'RESIZE': ['qvector_resize', 'qvector_addat'],
         'CLEAR': ['qvector_clear'], 'TOARRAY': ['qvector_toarray'], 'WALK': ['qvector_getnext'], 'SIZE': ['qvector_size'], 'CTOR': ['qvector', 'qvector_free'], 'GROW2': ['qvector_addat', 'qvector_resize']}


def vec_cases(tier, prefix='c10', extra_defs=None, checks='func', leak=False, ops=None, safety_owner='C11', sizes=None, maxes=None, timeout=600):
    out = []
    # 33: one byte above a 32-byte staging chunk (element-wise swaps/copies through fixed-size buffers), not a power of two
    sizes = sizes or ([1, 3, 33] if tier == 'quick' else [1, 2, 3, 4, 7, 8, 16, 33, 40, 64])
    maxes = maxes if maxes is not None else ([0, 1, 2, 3] if tier == 'quick' else [0, 1, 2, 3, 4, 5])
    for op in (ops or [o for o in OPS if o != 'GROW2']):
        for osz in sizes:
            ms = [0] if op == 'CTOR' else maxes
            if osz > 8 and op not in ('ADD', 'POP', 'REMOVE', 'RESIZE', 'GET', 'REVERSE', 'SET'):
                continue
            if osz in (33, 40) and op in ('RESIZE', 'ADD', 'GROW2'):   # growth with 33-byte elements: out of memory at 8 GB
                continue
            for mx in ms:
                if osz > 8 and mx > 3:
                    continue
                variants = [({}, '')]
                if op in ('ADD', 'GROW2', 'RESIZE', 'CTOR', 'CLEAR'):
                    variants = [({'VF_POLICY': 0}, '.exact'), ({'VF_POLICY': 1, 'VF_INITNUM': 1}, '.lin1'), ({'VF_POLICY': 1, 'VF_INITNUM': 2}, '.lin2'), ({'VF_POLICY': 2}, '.dbl')]
                    if tier == 'thorough':
                        variants.append(({'VF_POLICY': 1, 'VF_INITNUM': 3}, '.lin3'))
                if op == 'RESIZE':
                    variants = [(dict(v, VF_NEWMAX=nm), '%s.to%d' % (sfx, nm)) for (v, sfx) in variants for nm in range(0, mx + 3)]
                for (vd, sfx) in variants:
                    d = {'VF_OP': OPS[op], 'VF_MAX': mx, 'VF_OBJSIZE': osz}
                    d.update(vd)
                    d.update(extra_defs or {})
                    out.append(Case('%s.vec.%s.os%d.max%d%s' % (prefix, op, osz, mx, sfx), 'vec.c', d, unwind=max(mx + 8, osz, 8) + 3,
                                    checks=checks, leak=leak, timeout=timeout, funcs=['qvector'] + FUNCS[op], safety_owner=safety_owner,
                                    desc='vector %s from any state with capacity %d, element size %d%s: num<=max, contents, index (all int), value symbolic' % (op, mx, osz, sfx)))
    return out


FAILS = [({'VF_FAILMASK': 1}, 'f0'), ({'VF_FAILMASK': 2}, 'f1'), ({'VF_FAILMASK': 4}, 'f2'), ({'VF_FAILMASK': 0, 'VF_FAILFROM': 0}, 'ff0'), ({'VF_FAILMASK': 0, 'VF_FAILFROM': 1}, 'ff1')]


def cases(tier, mode='func'):
    """mode: func (C10) | safety (C11) | copy (C12) | lock (C14) | allocfail (C15)"""
    q = tier == 'quick'
    if mode == 'func':
        return vec_cases(tier)
    if mode == 'safety':
        return vec_cases(tier, prefix='c11', checks='safety', leak=True, sizes=[1, 3] if q else [1, 2, 3, 8], maxes=[0, 1, 3] if q else [0, 1, 2, 3, 4])
    if mode == 'copy':
        return vec_cases(tier, prefix='c12', checks='safety', ops=['ADD', 'SET', 'GET', 'POP', 'TOARRAY', 'WALK'], sizes=[1, 3], maxes=[1, 2] if q else [1, 2, 3])
    out = []
    if mode == 'lock':
        for fd, fs in FAILS + [({'VF_FAILMASK': 0}, 'nofail')]:
            d = {'VF_TS': None, 'VF_ALLOCFAIL': None}
            d.update(fd)
            out += vec_cases(tier, prefix='c14.%s' % fs, extra_defs=d, sizes=[1] if q else [1, 3], maxes=[0, 2] if q else [0, 1, 2, 3])
        return out
    if mode == 'allocfail':
        for fd, fs in FAILS:
            d = {'VF_ALLOCFAIL': None}
            d.update(fd)
            out += vec_cases(tier, prefix='c15.%s' % fs, extra_defs=d, sizes=[1] if q else [1, 3], maxes=[0, 2] if q else [0, 1, 2, 3])
            d = dict(d, VF_TS=None)
            out += vec_cases(tier, prefix='c15.ts.%s' % fs, extra_defs=d, ops=['CTOR'], sizes=[1, 3])
        return out
    raise ValueError(mode)


def info(tier):
    q = tier == 'quick'
    return {'container': 'vector (qvector.c)',
            'bounds': 'capacity %s, element sizes %s, index over the whole int range, resize target <= capacity+2; growth policy, initnum (1..%d), resize target and allocation-failure position are per-query constants'
                      % (('0..3', '{1,3}', 2) if q else ('0..5', '{1,2,3,4,7,8,16,64}', 3)),
            'prestate': 'every state with num<=max, data!=NULL iff max>0, any growth policy (reachable by constructor + addlast + resize)',
            'stubs': ['allocator shim stubs.h (failure position constant per query in C14/C15 runs, never fails otherwise)', 'lock model stubs.h (trylock always succeeds for the single logical thread; depth counted)']}
