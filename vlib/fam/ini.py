"""INI parser family (src/extensions/qconfig.c) for the INI halves of C17 and C20.

Every query is an exhaustive case split over one batch [lo, hi) of a finite input family: the only
symbolic input of harness/ini.c is the member selector; each branch runs the real parser on one
concrete member (see the ENCODING note at the top of harness/ini.c for the measurements that forced
this: one symbolic text byte = no verdict in 300 s / 7 GB).  This module mirrors the radix tables of
the harness to know each family's size; -DVF_TOTAL makes the harness assert the agreement."""
import itertools
from ..engine import Case

PROP = 'C20'
NAME = 'ini'

# ---- mirrors of harness/ini.c (PICK4 tables: tiny, small, medium, rich)
N_LAY = (1, 2, 3, 6)
N_NAMES = (2, 2, 3, 5)
N_SECS = (2, 2, 3, 4)
N_KVVALS = (2, 2, 4, 14)
N_REFS = (4, 4, 8, 12)
N_PRES = (1, 1, 2, 4)
N_COMMENTS = (1, 1, 3, 8)
N_ENVNAMES = 2
N_ENVCFG = (2, 2, 4, 6)
N_LITS = (1, 1, 2, 4)
N_VALS = (2, 3, 4, 6)
N_PRE2 = (2, 3, 4, 6)
N_NM2 = (3, 5, 8, 10)
N_POST2 = (2, 3, 4, 5)
N_INC2 = (2, 4, 6, 9)
ALPHABETS = ['ab=${}[]#%! \\n', 'a=${}\\n', '=${}', 'a=${}%\\n', 'a=${}']
ALPHA_SIZE = [13, 6, 4, 7, 5]

K_NONE, K_BLANK, K_COMMENT, K_SEC, K_SECEND, K_KV, K_REF, K_ENV = range(8)
KNAME = {K_NONE: 'none', K_BLANK: 'blank', K_COMMENT: 'comment', K_SEC: 'sec', K_SECEND: 'secend', K_KV: 'kv', K_REF: 'ref', K_ENV: 'env'}
T_REF, T_LITREF, T_ENV, T_CMD = 1, 2, 3, 4
TNAME = {T_REF: 'ref', T_LITREF: 'litref', T_ENV: 'env', T_CMD: 'cmd'}

FUNCS = ['qconfig_parse_str', '_parsestr', '_q_makeword', 'qstrtrim', 'qstrreplace', 'qstrdupf', 'qlisttbl_putstr', 'qlisttbl_getstr', 'qlisttbl']
FUNCS_FILE = FUNCS + ['qconfig_parse_file']

BATCH = 120          # members per query
FS_FLAGS = ['--max-field-sensitivity-array-size', '1100']  # qstrdupf's 1024-byte scratch buffer must stay element-wise for constant folding
EXPAND_BOUND = 12    # unwinding bound of the ${} expansion loop (do-while in _parsestr)


def line_radix(k, r):
    return {K_NONE: 1, K_BLANK: N_LAY[r], K_COMMENT: N_LAY[r] * N_COMMENTS[r], K_SEC: N_LAY[r] * N_SECS[r], K_SECEND: N_LAY[r],
            K_KV: N_LAY[r] * N_NAMES[r] * N_KVVALS[r], K_REF: N_LAY[r] * N_NAMES[r] * N_REFS[r] * N_PRES[r],
            K_ENV: N_LAY[r] * N_NAMES[r] * N_ENVNAMES}[k]


def doc_total(kinds, r):
    t = 2
    for k in kinds:
        t *= line_radix(k, r)
    if K_ENV in kinds:
        t *= N_ENVCFG[r]
    return t


def inc_total(kinds, r, nstruct):
    t = nstruct
    for k in kinds:
        t *= line_radix(k, r)
    if K_ENV in kinds:
        t *= N_ENVCFG[r]
    return t


def tpl_total(kinds, r):
    t = 1
    for k in kinds:
        t *= 9 * (N_LITS[r] if k == T_LITREF else 1)
    if T_ENV in kinds:
        t *= N_VALS[r] + 1
    if T_CMD in kinds:
        t *= N_VALS[r] + 1
    return t


def batches(total, size=BATCH):
    return [(lo, min(total, lo + size)) for lo in range(0, total, size)]


def mk(cid, defs, total, lo, hi, safety, funcs, desc, owner):
    d = dict(defs)
    d.update({'VF_LO': lo, 'VF_HI': hi, 'VF_TOTAL': total})
    kw = {}
    if safety:
        kw = dict(checks='safety', safety_owner=owner, unwind_owner=owner)
    else:
        kw = dict(checks='func', unwind_owner=owner)
    return Case(cid, 'ini.c', d, unwind=120, unwindset={'vf_harness.0': hi - lo + 2, 'qstrdupf.0': 2, '_parsestr.2': EXPAND_BOUND},
                timeout=900, mem_gb=3, object_bits=14, extra_flags=FS_FLAGS, funcs=funcs, family='ini',
                desc='%s; members %d..%d of %d' % (desc, lo, hi - 1, total), **kw)


def family(prefix, defs, total, safety, funcs, desc, owner):
    out = []
    for (lo, hi) in batches(total):
        out.append(mk('%s.m%06d' % (prefix, lo), defs, total, lo, hi, safety, funcs, desc, owner))
    return out


# ---------------------------------------------------------------- family definitions per tier
def raw_plan(tier):
    """(n, alphabet index) pairs of the raw C17 family"""
    if tier == 'quick':
        return [(0, 0), (1, 0), (2, 0), (3, 0), (4, 1), (5, 2)]
    return [(0, 0), (1, 0), (2, 0), (3, 0), (4, 0), (5, 3), (6, 4), (7, 2)]


def tpl_plan(tier):
    """(kinds tuple, richness) of the expansion-template family"""
    kinds = (T_REF, T_LITREF, T_ENV, T_CMD)
    out = [((k,), 3) for k in kinds]
    if tier == 'quick':
        out += [(p, 1) for p in itertools.product(kinds, repeat=2)]
        out += [((T_REF, T_REF, T_REF), 0)]
    else:
        out += [(p, 3) for p in itertools.product(kinds, repeat=2)]
        out += [(p, 1) for p in itertools.product((T_REF, T_LITREF), repeat=3)]
        for special in (T_ENV, T_CMD):
            for pos in range(3):
                t = [T_REF, T_REF, T_REF]
                t[pos] = special
                out.append((tuple(t), 0))
    return out


def incraw_rich(tier):
    return 1 if tier == 'quick' else 3


def doc_plan(tier):
    kinds = (K_BLANK, K_COMMENT, K_SEC, K_SECEND, K_KV, K_REF, K_ENV)
    out = [((k,), 3) for k in kinds]
    if tier == 'quick':
        out += [(p, 1) for p in itertools.product(kinds, repeat=2)]
    else:
        out += [(p, 2) for p in itertools.product(kinds, repeat=2)]
        out += [(p, 0) for p in itertools.product(kinds, repeat=3)]
    return out


def docinc_plan(tier):
    """(A kind, C kind (the included line), B kind), richness, number of structural variants"""
    if tier == 'quick':
        a, c, b, ns = (K_NONE, K_SEC, K_KV), (K_KV, K_SEC, K_REF), (K_NONE, K_REF), 3
    else:
        a, c, b, ns = (K_NONE, K_SEC, K_KV, K_REF), (K_KV, K_SEC, K_SECEND, K_REF, K_ENV, K_COMMENT, K_BLANK), (K_NONE, K_KV, K_REF, K_SEC), 8
    return [(p, 0, ns) for p in itertools.product(a, c, b)]


def kdefs(kinds):
    return {'VF_L': len(kinds), 'VF_K0': kinds[0], 'VF_K1': kinds[1] if len(kinds) > 1 else 0, 'VF_K2': kinds[2] if len(kinds) > 2 else 0}


def c17_cases(tier, ledger=False, prefix='c17.ini', owner='C17'):
    out = []
    extra = {'VF_LEDGER': None} if ledger else {}
    for (n, a) in raw_plan(tier):
        total = ALPHA_SIZE[a] ** n
        d = dict({'VF_MODE': 1, 'VF_N': n, 'VF_ALPHA': a}, **extra)
        out += family('%s.raw.n%d.a%d' % (prefix, n, a), d, total, True, FUNCS,
                      'qconfig_parse_str on every %d-byte string over "%s" (exactly sized heap buffer)' % (n, ALPHABETS[a]), owner)
    r = incraw_rich(tier)
    total = N_PRE2[r] * N_NM2[r] * N_POST2[r] * N_INC2[r] * 2
    out += family('%s.incraw.r%d' % (prefix, r), dict({'VF_MODE': 2, 'VF_RICH': r}, **extra), total, True, FUNCS_FILE,
                  'qconfig_parse_file: main file = prefix + "@INCLUDE " + name bytes + suffix, include file raw, present or missing', owner)
    for (kinds, r) in tpl_plan(tier):
        total = tpl_total(kinds, r)
        d = dict({'VF_MODE': 3, 'VF_RICH': r}, **extra)
        d.update(kdefs(kinds))
        out += family('%s.tpl.%s.r%d' % (prefix, '-'.join(TNAME[k] for k in kinds), r), d, total, True, FUNCS,
                      'expansion templates, lines %s, names and references over {a,b,c}: the ${} expansion loop terminates within %d rounds' % ('/'.join(TNAME[k] for k in kinds), EXPAND_BOUND - 1), owner)
    return out


def c20_cases(tier, ledger=False, prefix='c20.ini', owner='C20'):
    out = []
    extra = {'VF_LEDGER': None} if ledger else {}
    for (kinds, r) in doc_plan(tier):
        total = doc_total(kinds, r)
        d = dict({'VF_MODE': 4, 'VF_RICH': r}, **extra)
        d.update(kdefs(kinds))
        out += family('%s.doc.%s.r%d' % (prefix, '-'.join(KNAME[k] for k in kinds), r), d, total, False, FUNCS,
                      'print -> qconfig_parse_str -> compare with the expected ordered entry list; lines %s' % '/'.join(KNAME[k] for k in kinds), owner)
    for (kinds, r, ns) in docinc_plan(tier):
        total = inc_total(kinds, r, ns)
        d = {'VF_MODE': 5, 'VF_RICH': r, 'VF_NSTRUCT': ns, 'VF_K0': kinds[0], 'VF_K1': kinds[1], 'VF_K2': kinds[2]}
        d.update(extra)
        out += family('%s.inc.%s.r%d' % (prefix, '-'.join(KNAME[k] for k in kinds), r), d, total, False, FUNCS_FILE,
                      'qconfig_parse_file over the in-memory files: [%s] @INCLUDE i [%s], included file [%s]' % (KNAME[kinds[0]], KNAME[kinds[2]], KNAME[kinds[1]]), owner)
    return out


def cases(tier, mode):
    """mode: 'c17' (safety + termination) | 'c20' (functional) | 'leak' (allocation ledger over the same members, tag C11.ini.leak)"""
    if mode == 'c17':
        return c17_cases(tier)
    if mode == 'c20':
        return c20_cases(tier)
    if mode == 'leak':
        return c17_cases(tier, ledger=True, prefix='c11.ini', owner='C11') if tier == 'quick' else []
    return []


def members(tier, mode):
    return sum(c.defines['VF_HI'] - c.defines['VF_LO'] for c in cases(tier, mode))


def info(tier):
    q = tier == 'quick'
    raw = ', '.join('n=%d over "%s"' % (n, ALPHABETS[a]) for (n, a) in raw_plan(tier))
    return {'container': 'INI parser (qconfig.c)',
            'bounds': ('every query is an exhaustive case split over a batch of a finite input family (selector symbolic, member text concrete). '
                       'C17 raw: every string with %s; C17 @INCLUDE: prefix/name/suffix/include-text lists of the harness at richness %d, include file present or missing; '
                       'C17 expansion templates: <= %d lines of name=${ref} / name=lit${ref} / name=${%%ENV} / name=${!cmd}, names and references each over {a,b,c}, literal over {x $ { }}, '
                       'environment value / command output over {"", "${", "a", "}", "$", "{a", unset} (%s), expansion loop bound %d rounds; '
                       'C20 documents: %s, line kinds {blank, #comment, [sec], [], k = v, k = [lit]${ref}, k = ${%%ENV}}, names/sections/values/references/layouts from the lists in harness/ini.c '
                       '(1 line: full lists; 2 lines: %s lists; 3 lines: smallest lists, one layout), last line with and without newline, CR LF layouts, environment variable set/unset; '
                       'C20 @INCLUDE: [line A] @INCLUDE i [line B] with a one-line include file, %d structural variants (padding, absolute/relative path, file present / other name / missing, trailing newlines); '
                       'separator character \'=\'; one include level')
                      % (raw, incraw_rich(tier), 3, 'three-line templates: reference-only lines, or one ENV/cmd line' if not q else 'three-line templates: reference-only',
                         EXPAND_BOUND - 1, '<= 2 lines' if q else '<= 3 lines', 'small' if q else 'medium', 3 if q else 8),
            'prestate': 'input family: raw strings / grammar templates / structured documents printed by the harness; table argument NULL (a new table is created)',
            'stubs': ['in-memory file system for qfile_load / qfile_get_dir (main file "f", one include file "./i" or "/i")',
                      'qgetenv: one variable with a per-member name/value or unset; qsyscmd: per-member output or failure',
                      'qhashmurmur3_32 replaced by a byte sum (the list table only stores and compares it)',
                      'libc models in the harness: strstr, sprintf("%c%s"), snprintf/vsnprintf (%s only), byte-loop memcpy/memmove',
                      'allocator shim of harness/ini.c (exactly sized objects, never fails, ledger)',
                      'PATH_MAX scaled to 64 in the solver build (path buffers of qconfig_parse_file; paths used are <= 6 bytes)']}
