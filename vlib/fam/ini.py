"""INI parser family (src/extensions/qconfig.c) for the INI halves of C17 and C20.

Every query is an EXHAUSTIVE CASE SPLIT over one batch of a driver-enumerated finite input family: the
only symbolic input of harness/ini.c is the member selector; each branch runs the real parser on one
concrete member (constant-folding symbolic execution of the real code; memory-safety checks,
unwinding assertions and the functional assertions are decided per member).  See the ENCODING note at
the top of harness/ini.c for the measurements that forced this (one symbolic text byte, or one symbolic
byte in a getenv()/command stub result, = no verdict in 300 s / 7 GB).  This module mirrors the radix
tables of the harness to know each family's size; -DVF_TOTAL makes the harness assert the agreement."""
import itertools
from ..engine import Case

PROP = 'C20'
NAME = 'ini'

# ---- mirrors of harness/ini.c (PICK4 tables: tiny, small, medium, rich)
N_LAY = (1, 2, 2, 6)
N_NAMES = (2, 2, 3, 5)
N_SECS = (2, 2, 3, 4)
N_KVVALS = (2, 2, 4, 14)
N_REFS = (4, 4, 6, 12)
N_PRES = (1, 1, 2, 4)
N_COMMENTS = (1, 1, 3, 8)
N_ENVNAMES = 2
N_ENVCFG = (2, 2, 4, 6)
N_LITS = (1, 1, 2, 4)
N_VALS = (2, 3, 4, 6)
N_PRE2 = (2, 3, 4, 6)
N_NM2 = (3, 5, 8, 10)
N_POST2 = (2, 3, 4, 5)
N_INC2 = (2, 4, 6, 9)
ALPHABETS = ['ab=${}[]#%! \\n', 'a=${}\\n', '=${}', 'a=${}%\\n', 'a=${}']
ALPHA_SIZE = [13, 6, 4, 7, 5]
VALS = ['', '${', 'a', '}', '$', '{a']
LITS = ['x', '$', '{', '}']

K_NONE, K_BLANK, K_COMMENT, K_SEC, K_SECEND, K_KV, K_REF, K_ENV, K_REF2 = range(9)
KNAME = {K_NONE: 'none', K_BLANK: 'blank', K_COMMENT: 'comment', K_SEC: 'sec', K_SECEND: 'secend', K_KV: 'kv', K_REF: 'ref', K_ENV: 'env', K_REF2: 'ref2'}
T_REF, T_LITREF, T_ENV, T_CMD = 1, 2, 3, 4
TNAME = {T_REF: 'ref', T_LITREF: 'litref', T_ENV: 'env', T_CMD: 'cmd'}

FUNCS = ['qconfig_parse_str', '_parsestr', '_q_makeword', 'qstrtrim', 'qstrreplace', 'qstrdupf', 'qlisttbl_putstr', 'qlisttbl_getstr', 'qlisttbl']
FUNCS_FILE = FUNCS + ['qconfig_parse_file']

BATCH = 120          # members per query
BATCH_SEC = 40       # ... when section lines are involved (qstrdupf's 1024-byte scratch buffer costs memory)
BATCH_LOOP = 12      # ... for the members whose ${} expansion is expected not to end (thorough tier: 24)
FS_FLAGS = ['--max-field-sensitivity-array-size', '1100']  # qstrdupf's 1024-byte scratch buffer must stay element-wise for constant folding
MAX_INCLUDES = 4     # scaled knob: -D_INCLUDE_MAX (used by the proposed bounded include splice; ignored by an unbounded one)
MAX_EXPANSIONS = 8   # scaled knob: -D_VAR_MAX_EXPANSIONS (used by the proposed bounded _parsestr(); ignored by an unbounded one)
EXPAND_BOUND = MAX_EXPANSIONS + 2    # unwinding bound of the ${} expansion loop (do-while in _parsestr)


def line_radix(k, r):
    return {K_NONE: 1, K_BLANK: N_LAY[r], K_COMMENT: N_LAY[r] * N_COMMENTS[r], K_SEC: N_LAY[r] * N_SECS[r], K_SECEND: N_LAY[r],
            K_KV: N_LAY[r] * N_NAMES[r] * N_KVVALS[r], K_REF: N_LAY[r] * N_NAMES[r] * N_REFS[r] * N_PRES[r],
            K_ENV: N_LAY[r] * N_NAMES[r] * N_ENVNAMES, K_REF2: N_LAY[r] * N_NAMES[r] * 18}[k]


def doc_total(kinds, r):
    t = 2
    for k in kinds:
        t *= line_radix(k, r)
    if K_ENV in kinds:
        t *= N_ENVCFG[r]
    return t


def inc_total(kinds, r, nstruct):
    t = nstruct
    for k in kinds:
        t *= line_radix(k, r)
    if K_ENV in kinds:
        t *= N_ENVCFG[r]
    return t


def tpl_total(kinds, r):
    t = 1
    for k in kinds:
        t *= 9 * (N_LITS[r] if k == T_LITREF else 1)
    if T_ENV in kinds:
        t *= N_VALS[r] + 1
    if T_CMD in kinds:
        t *= N_VALS[r] + 1
    return t


# ---------------------------------------------------------------- queries
def mk(cid, defs, total, members, safety, funcs, desc, owner, unwind):
    """members: (lo, hi) range or explicit list of member indexes"""
    d = dict(defs)
    d['VF_TOTAL'] = total
    d['_VAR_MAX_EXPANSIONS'] = MAX_EXPANSIONS
    if isinstance(members, tuple):
        d.update({'VF_LO': members[0], 'VF_HI': members[1]})
        n, what = members[1] - members[0], 'members %d..%d' % (members[0], members[1] - 1)
    else:
        d['VF_LIST'] = ','.join(str(i) for i in members)
        n, what = len(members), 'members %s' % (','.join(str(i) for i in members) if len(members) <= 12 else '%d..%d (%d of them)' % (members[0], members[-1], len(members)))
    if safety:
        kw = dict(checks='safety', safety_owner=owner, unwind_owner=owner)
    else:
        kw = dict(checks='func', unwind_owner=owner)
    c = Case(cid, 'ini.c', d, unwind=unwind, unwindset={'vf_harness.0': n + 2, 'qstrdupf.0': 2, '_parsestr.2': EXPAND_BOUND, 'qconfig_parse_file.1': MAX_INCLUDES + 4},
             timeout=900, mem_gb=3, object_bits=14, extra_flags=FS_FLAGS, funcs=funcs, family='ini',
             desc='%s; %s of a driver-enumerated family of %d concrete inputs: CBMC executes the real parser on each member (only the member selector is symbolic)' % (desc, what, total), **kw)
    c.n_members = n
    return c


def family(prefix, defs, total, safety, funcs, desc, owner, unwind, size=BATCH, special=None, loop_size=None):
    """special: {member index: text} - members that are expected to make the expansion loop run forever; they are
    kept out of the ordinary batches and get small batches of their own (case id '....loop.mNNNNNN')"""
    out = []
    special = special or {}
    if not special:
        for lo in range(0, total, size):
            out.append(mk('%s.m%06d' % (prefix, lo), defs, total, (lo, min(total, lo + size)), safety, funcs, desc, owner, unwind))
        return out
    normal = [i for i in range(total) if i not in special]
    for k in range(0, len(normal), size):
        part = normal[k:k + size]
        out.append(mk('%s.m%06d' % (prefix, part[0]), defs, total, part, safety, funcs, desc, owner, unwind))
    sp = sorted(special)
    loop_size = loop_size or BATCH_LOOP
    for k in range(0, len(sp), loop_size):
        part = sp[k:k + loop_size]
        out.append(mk('%s.loop.m%06d' % (prefix, part[0]), dict(defs, VF_LOOPBATCH=None), total, part, safety, funcs,
                      '%s; self- or mutually-referential members (expansion does not end on an unbounded _parsestr()): %s' % (desc, ' | '.join('%d=%s' % (i, special[i]) for i in part)), owner, unwind))
    return out


# ---------------------------------------------------------------- expansion templates: member text and loop prediction
# (used only to move the members whose ${} expansion never ends into batches of their own, so that they can be
#  identified by case id; a wrong prediction cannot hide anything: the member is then checked inside an ordinary batch)
def tpl_member(kinds, r, idx):
    x = [idx]

    def dig(b):
        d = x[0] % b
        x[0] //= b
        return d
    text = ''
    for k in kinds:
        text += 'abc'[dig(3)] + '='
        if k == T_LITREF:
            text += LITS[dig(N_LITS[r])]
        text += '${' + ('%' if k == T_ENV else '!' if k == T_CMD else '')
        text += 'abc'[dig(3)] + '}\n'
    env = cmd = None
    if T_ENV in kinds:
        d = dig(N_VALS[r] + 1)
        env = VALS[d] if d < N_VALS[r] else None
    if T_CMD in kinds:
        d = dig(N_VALS[r] + 1)
        cmd = VALS[d] if d < N_VALS[r] else None
    return text, env, cmd


def _expand(tbl, value, env, cmd, limit=200):
    """port of _parsestr(); returns None when the expansion does not end within `limit` rounds"""
    for _ in range(limit):
        loop = False
        i = 0
        while i < len(value):
            if not (value[i] == '$' and value[i + 1:i + 2] == '{'):
                i += 1
                continue
            opened = 1
            e = i + 2
            while e < len(value):
                if value[e] == '$' and value[e + 1:e + 2] == '{':
                    i = e - 1
                    break
                elif value[e] == '{':
                    opened += 1
                elif value[e] == '}':
                    opened -= 1
                else:
                    e += 1
                    continue
                if opened == 0:
                    break
                e += 1
            if e >= len(value):
                break
            if opened > 0:
                i += 1
                continue
            var = value[i + 2:e]
            if var[:1] == '!':
                new = '' if len(var) == 1 else (cmd.strip(' \t\r\n') if cmd is not None else '')
            elif var[:1] == '%':
                new = '' if len(var) == 1 else (env if env is not None else '')
            elif var == '':
                new = ''
            else:
                new = None
                for (n, v) in tbl:
                    if n == var:
                        new = v
                if new is None:
                    i = e + 1
                    continue
            value = value.replace(value[i:e + 1], new)
            loop = True
            break
        if not loop:
            return value
    return None


def tpl_loops(kinds, r, idx):
    text, env, cmd = tpl_member(kinds, r, idx)
    tbl = []
    for line in text.split('\n'):
        line = line.strip(' \t\r\n')
        if not line or line[0] == '#':
            continue
        name, _, value = line.partition('=')
        v = _expand(tbl, value.strip(' \t\r\n'), env, cmd)
        if v is None:
            return True
        tbl.append((name.strip(' \t\r\n'), v))
    return False


def tpl_special(kinds, r, total):
    out = {}
    for idx in range(total):
        if tpl_loops(kinds, r, idx):
            text, env, cmd = tpl_member(kinds, r, idx)
            out[idx] = '%r%s%s' % (text, '' if env is None else ' with ${%%x}=%r' % env, '' if cmd is None else ' with ${!x} printing %r' % cmd)
    return out


# ---------------------------------------------------------------- family definitions per tier
def raw_plan(tier):
    """(n, alphabet index) pairs of the raw C17 family"""
    if tier == 'quick':
        return [(0, 0), (1, 0), (2, 0), (3, 0), (4, 1), (5, 2)]
    return [(0, 0), (1, 0), (2, 0), (3, 0), (4, 0), (5, 1), (6, 2), (7, 2)]


def tpl_plan(tier):
    """(kinds tuple, richness) of the expansion-template family"""
    kinds = (T_REF, T_LITREF, T_ENV, T_CMD)
    out = [((k,), 3) for k in kinds]
    if tier == 'quick':
        out += [(p, 1) for p in itertools.product((T_REF, T_LITREF), repeat=2)]
        out += [(p, 0) for p in ((T_ENV, T_REF), (T_REF, T_ENV), (T_CMD, T_REF), (T_REF, T_CMD))]
        out += [((T_REF, T_REF, T_REF), 0)]
    else:
        out += [(p, 2) for p in itertools.product(kinds, repeat=2)]
        out += [(p, 1) for p in itertools.product((T_REF, T_LITREF), repeat=3)]
        for special in (T_ENV,):
            for pos in range(3):
                t = [T_REF, T_REF, T_REF]
                t[pos] = special
                out.append((tuple(t), 0))
    return out


def incraw_rich(tier):
    return 1 if tier == 'quick' else 3


def doc_plan(tier):
    kinds = (K_BLANK, K_COMMENT, K_SEC, K_SECEND, K_KV, K_REF, K_ENV)
    if tier == 'quick':
        out = [((k,), 2 if k == K_REF else 3) for k in kinds]
        out += [(p, 1) for p in itertools.product(kinds, repeat=2)]
        out += [((K_KV, K_REF2), 1)]   # two references on one line, each defined or not
    else:
        out = [((k,), 3) for k in kinds]
        out += [(p, 2) for p in itertools.product(kinds, repeat=2)]
        out += [(p, 0) for p in itertools.product(kinds, repeat=3)]
        out += [((K_REF2,), 3), ((K_KV, K_REF2), 2), ((K_SEC, K_REF2), 1), ((K_REF, K_REF2), 1), ((K_REF2, K_REF2), 1), ((K_KV, K_KV, K_REF2), 0), ((K_KV, K_SEC, K_REF2), 0)]
    return out


def docinc_plan(tier):
    """(A kind, C kind (the included line), B kind), richness, number of structural variants"""
    if tier == 'quick':
        a, c, b, ns = (K_NONE, K_SEC, K_KV), (K_KV, K_REF), (K_NONE, K_REF), 3
    else:
        a, c, b, ns = (K_NONE, K_SEC, K_KV, K_REF), (K_KV, K_SEC, K_SECEND, K_REF, K_ENV, K_COMMENT, K_BLANK), (K_NONE, K_KV, K_REF), 4
    return [(p, 0, ns) for p in itertools.product(a, c, b)]


def kdefs(kinds):
    return {'VF_L': len(kinds), 'VF_K0': kinds[0], 'VF_K1': kinds[1] if len(kinds) > 1 else 0, 'VF_K2': kinds[2] if len(kinds) > 2 else 0}


def c17_cases(tier, ledger=False, prefix='c17.ini', owner='C17'):
    out = []
    extra = {'VF_LEDGER': None} if ledger else {}
    for (n, a) in raw_plan(tier):
        total = ALPHA_SIZE[a] ** n
        d = dict({'VF_MODE': 1, 'VF_N': n, 'VF_ALPHA': a}, **extra)
        out += family('%s.raw.n%d.a%d' % (prefix, n, a), d, total, True, FUNCS,
                      'qconfig_parse_str on every %d-byte string over the alphabet "%s" (exactly sized heap buffer)' % (n, ALPHABETS[a]), owner, 16)
    r = incraw_rich(tier)
    total = N_PRE2[r] * N_NM2[r] * N_POST2[r] * N_INC2[r] * 2
    out += family('%s.incraw.r%d' % (prefix, r), dict({'VF_MODE': 2, 'VF_RICH': r}, **extra), total, True, FUNCS_FILE,
                  'qconfig_parse_file: main file = prefix + "@INCLUDE " + name bytes + suffix, include file raw, present or missing', owner, 40, size=BATCH_SEC)
    # include cycle: 3 members, a query of their own (case id c17.ini.inccycle.loop.*); the splice loop must end
    out += family('%s.inccycle' % prefix, dict({'VF_MODE': 6, '_INCLUDE_MAX': MAX_INCLUDES}, **extra), 3, True, FUNCS_FILE,
                  'qconfig_parse_file: main file "@INCLUDE i", the included file includes itself again: the splice loop ends (at most %d splices)' % MAX_INCLUDES, owner, 40,
                  special={0: "include file '@INCLUDE i'", 1: "include file '@INCLUDE i\\n'", 2: "include file 'a=b\\n@INCLUDE i\\n'"})
    for (kinds, r) in tpl_plan(tier):
        total = tpl_total(kinds, r)
        d = dict({'VF_MODE': 3, 'VF_RICH': r}, **extra)
        d.update(kdefs(kinds))
        out += family('%s.tpl.%s.r%d' % (prefix, '-'.join(TNAME[k] for k in kinds), r), d, total, True, FUNCS,
                      'expansion templates, lines %s, names and references over {a,b,c}: the ${} expansion loop ends within %d rounds' % ('/'.join(TNAME[k] for k in kinds), MAX_EXPANSIONS), owner, 8 * len(kinds) + 8,
                      special=tpl_special(kinds, r, total), loop_size=BATCH_LOOP if tier == 'quick' else 2 * BATCH_LOOP)
    return out


def c20_cases(tier, ledger=False, prefix='c20.ini', owner='C20'):
    out = []
    extra = {'VF_LEDGER': None} if ledger else {}
    for (kinds, r) in doc_plan(tier):
        total = doc_total(kinds, r)
        d = dict({'VF_MODE': 4, 'VF_RICH': r}, **extra)
        d.update(kdefs(kinds))
        out += family('%s.doc.%s.r%d' % (prefix, '-'.join(KNAME[k] for k in kinds), r), d, total, False, FUNCS,
                      'print -> qconfig_parse_str -> compare with the expected ordered entry list; lines %s' % '/'.join(KNAME[k] for k in kinds), owner, 18 * len(kinds) + 6,
                      size=BATCH_SEC if K_SEC in kinds else BATCH)
    for (kinds, r, ns) in docinc_plan(tier):
        total = inc_total(kinds, r, ns)
        d = {'VF_MODE': 5, 'VF_RICH': r, 'VF_NSTRUCT': ns, 'VF_K0': kinds[0], 'VF_K1': kinds[1], 'VF_K2': kinds[2]}
        d.update(extra)
        out += family('%s.inc.%s.r%d' % (prefix, '-'.join(KNAME[k] for k in kinds), r), d, total, False, FUNCS_FILE,
                      'qconfig_parse_file over the in-memory files: [%s] @INCLUDE i [%s], included file [%s]' % (KNAME[kinds[0]], KNAME[kinds[2]], KNAME[kinds[1]]), owner, 76,
                      size=30 if K_SEC in kinds else 60)
    return out


def cases(tier, mode):
    """mode: 'c17' (safety + termination) | 'c20' (functional) | 'leak' (allocation ledger over the C17 quick members, tag C11.ini.leak)"""
    if mode == 'c17':
        return c17_cases(tier)
    if mode == 'c20':
        return c20_cases(tier)
    if mode == 'leak':
        return c17_cases('quick', ledger=True, prefix='c11.ini', owner='C11')
    return []


def members(tier, mode):
    return sum(c.n_members for c in cases(tier, mode))


def sizes(tier):
    """family sizes (number of concrete members) per group"""
    out = {}
    for m in ('c17', 'c20'):
        for c in cases(tier, m):
            g = '.'.join(c.cid.split('.')[:3])
            out[g] = out.get(g, 0) + c.n_members
    return out


def info(tier):
    q = tier == 'quick'
    raw = ', '.join('n=%d over "%s" (%d)' % (n, ALPHABETS[a], ALPHA_SIZE[a] ** n) for (n, a) in raw_plan(tier))
    sz = sizes(tier)
    return {'container': 'INI parser (qconfig.c)',
            'bounds': ('The INI text is NOT symbolic: every query is an exhaustive case split over a batch (<= %d members) of a driver-enumerated finite family of concrete inputs; CBMC executes the real parser on each member '
                       '(constant-folding symbolic execution; only the member selector is symbolic) and decides the memory-safety checks, the unwinding assertions (termination) and the functional assertions per member. '
                       'Family sizes (members): %s. '
                       'C17 raw: every string with %s; C17 @INCLUDE: prefix/name/suffix/include-text lists of harness/ini.c at richness %d, include file present or missing; '
                       'C17 expansion templates: <= 3 lines of name=${ref} / name=lit${ref} / name=${%%ENV} / name=${!cmd}, names and references each over {a,b,c}, literal over {x $ { }}, '
                       'environment value / command output over {"", "${", "a", "}", "$", "{a", unset} (three-line templates: %s), expansion loop bound %d rounds; '
                       'C20 documents: %s, line kinds {blank, #comment, [sec], [], k = v, k = [lit]${ref}, k = ${r1}[x]${r2}, k = ${%%ENV}}, names/sections/values/references/layouts from the lists in harness/ini.c '
                       '(1 line: full lists; 2 lines: %s lists%s), last line with and without newline, CR LF layouts, environment variable set/unset; '
                       'C20 @INCLUDE: [line A] @INCLUDE i [line B] with a one-line include file, %d structural variants (padding, absolute/relative path, file present / other name / missing, trailing newlines); '
                       'separator character \'=\'; one include level')
                      % (BATCH, ', '.join('%s %d' % kv for kv in sorted(sz.items())), raw, incraw_rich(tier),
                         'reference-only lines' if q else 'reference/literal lines, or one ENV line among reference lines', MAX_EXPANSIONS,
                         '<= 2 lines' if q else '<= 3 lines', 'small' if q else 'medium', '' if q else '; 3 lines: smallest lists, one layout', 3 if q else 4),
            'prestate': 'input family: raw strings / grammar templates / structured documents printed by the harness; table argument NULL (a new table is created)',
            'stubs': ['in-memory file system for qfile_load / qfile_get_dir (main file "f", one include file "./i" or "/i")',
                      'qgetenv: one variable with a per-member name/value or unset; qsyscmd: per-member output or failure (both concrete per member: one symbolic byte in either = no verdict in 300 s)',
                      'qhashmurmur3_32 replaced by a byte sum (the list table only stores and compares it)',
                      'libc models in the harness: strstr, sprintf("%c%s"), snprintf/vsnprintf (%s only), byte-loop memcpy/memmove',
                      'allocator shim of harness/ini.c (exactly sized objects, never fails, ledger)',
                      'PATH_MAX scaled to 64 in the solver build (path buffers of qconfig_parse_file; paths used are <= 6 bytes)']}
