"""List family: qlist.c (harness/list.c) and the containers built on it - qqueue.c, qstack.c, qgrow.c (harness/qsg.c).
Specification side (ideal sequence, pre-state builder, well-formedness checker): ref/listref.h; memcpy model: ref/listmem.h."""
import itertools
from ..engine import Case

PROP = 'C09'   # functional property owning this family
NAME = 'list'

# ---------------------------------------------------------------- qlist (harness/list.c)
OPS = {'ADD': 1, 'GET': 2, 'POP': 3, 'REMOVE': 4, 'REVERSE': 5, 'CLEAR': 6, 'SETSIZE': 7, 'TOARRAY': 8, 'TOSTRING': 9, 'WALK': 10,
       'SIZE': 11, 'CTOR': 12, 'ADDINV': 13, 'LOCK': 14}
FUNCS = {'ADD': ['qlist_addat', 'qlist_addfirst', 'qlist_addlast', 'get_obj'], 'ADDINV': ['qlist_addat', 'qlist_addfirst', 'qlist_addlast'],
         'GET': ['qlist_getat', 'qlist_getfirst', 'qlist_getlast', 'get_at', 'get_obj'],
         'POP': ['qlist_popat', 'qlist_popfirst', 'qlist_poplast', 'get_at', 'get_obj', 'remove_obj'],
         'REMOVE': ['qlist_removeat', 'qlist_removefirst', 'qlist_removelast', 'get_obj', 'remove_obj'],
         'REVERSE': ['qlist_reverse'], 'CLEAR': ['qlist_clear', 'qlist_addat'], 'SETSIZE': ['qlist_setsize', 'qlist_addat'],
         'TOARRAY': ['qlist_toarray'], 'TOSTRING': ['qlist_tostring'], 'WALK': ['qlist_getnext'], 'SIZE': ['qlist_size', 'qlist_datasize'],
         'CTOR': ['qlist', 'qlist_addat'], 'LOCK': ['qlist_lock', 'qlist_unlock']}
ALLOCATING = ('ADD', 'GET', 'POP', 'WALK', 'TOARRAY', 'TOSTRING', 'CLEAR', 'SETSIZE', 'CTOR')   # ops with a malloc inside the call(s) under test
INSERTING = ('ADD', 'ADDINV', 'CLEAR', 'SETSIZE', 'CTOR')                                       # ops whose query depends on VF_ESZ
CONST_SIZES = ('TOARRAY', 'TOSTRING')   # allocate datasum bytes: every node size must be a per-query constant (GUIDE rule 4)


def patterns(n, alphabet):
    """all size assignments for n nodes as the digit string listref.h decodes (node 0 = least significant digit)"""
    return [''.join(str(d) for d in reversed(t)) for t in itertools.product(alphabet, repeat=n)]


def list_cases(tier, prefix='c09', extra_defs=None, checks='func', leak=False, ops=None, ns=None, eszs=None, maxsz=3, pat_alpha=None,
               timeout=None, safety_owner='C11'):
    q = tier == 'quick'
    out = []
    ns = ns if ns is not None else (range(0, 5) if q else range(0, 6))
    eszs = eszs or ([1, 3] if q else [1, 2, 3, 8])
    pat_alpha = pat_alpha or ((1, 2) if q else (1, 2, 3))
    timeout = timeout or (120 if q else 600)
    for op in (ops or [o for o in OPS]):
        for n in ([0] if op == 'CTOR' else ns):
            es = eszs if op in INSERTING else [1]
            for esz in es:
                if op in CONST_SIZES and n > 0:
                    alpha = pat_alpha if n <= 4 else pat_alpha[:2]
                    variants = [({'VF_SIZES': p, 'VF_MAXSZ': max(alpha)}, '.sz' + p) for p in patterns(n, alpha)]
                    sizes_txt = 'element sizes constant (pattern enumerated by the driver)'
                else:
                    variants = [({'VF_MAXSZ': maxsz}, '')]
                    sizes_txt = 'element sizes symbolic in 1..%d per node' % maxsz
                for vd, sfx in variants:
                    d = {'VF_OP': OPS[op], 'VF_N': n, 'VF_ESZ': esz}
                    d.update(vd)
                    d.update(extra_defs or {})
                    cid = '%s.list.%s.n%d%s%s' % (prefix, op, n, ('.e%d' % esz) if op in INSERTING else '', sfx)
                    out.append(Case(cid, 'list.c', d, unwind=max(n + 3, esz, d['VF_MAXSZ']) + 4, checks=checks, leak=leak, timeout=timeout,
                                    funcs=FUNCS[op], safety_owner=safety_owner,
                                    desc='list %s from any well-formed list of %d nodes; %s, element bytes, max (any size_t), index (all int), variant at/first/last, flags symbolic%s'
                                         % (op, n, sizes_txt, ('; inserted element %d bytes' % esz) if op in INSERTING else '')))
    return out


# ---------------------------------------------------------------- queue / stack / grow buffer (harness/qsg.c)
KINDS = {'queue': 1, 'stack': 2, 'grow': 3}
QOPS = {'PUSH': 1, 'PUSHSTR': 2, 'PUSHINT': 3, 'POP': 4, 'POPSTR': 5, 'POPINT': 6, 'POPAT': 7, 'GET': 8, 'GETSTR': 9, 'GETINT': 10, 'GETAT': 11,
        'SIZE': 12, 'CLEAR': 13, 'SETSIZE': 14, 'CTOR': 15, 'ORDER': 16, 'PUSHINV': 17, 'TOARRAY': 18, 'TOSTRING': 19}
QS_OPS = ['PUSH', 'PUSHSTR', 'PUSHINT', 'POP', 'POPSTR', 'POPINT', 'POPAT', 'GET', 'GETSTR', 'GETINT', 'GETAT', 'SIZE', 'CLEAR', 'SETSIZE', 'CTOR', 'ORDER', 'PUSHINV']
GROW_OPS = ['PUSH', 'PUSHSTR', 'TOARRAY', 'TOSTRING', 'SIZE', 'CLEAR', 'CTOR', 'ORDER', 'PUSHINV']
Q_ALLOCATING = ('PUSH', 'PUSHSTR', 'PUSHINT', 'POP', 'POPSTR', 'POPINT', 'POPAT', 'GET', 'GETSTR', 'GETINT', 'GETAT', 'CLEAR', 'SETSIZE', 'CTOR', 'TOARRAY', 'TOSTRING')
Q_INSERTING = ('PUSH', 'CLEAR', 'SETSIZE', 'CTOR', 'ORDER', 'PUSHINV')
QNAMES = {'queue': {'PUSH': 'push', 'PUSHSTR': 'pushstr', 'PUSHINT': 'pushint', 'POP': 'pop', 'POPSTR': 'popstr', 'POPINT': 'popint', 'POPAT': 'popat', 'GET': 'get', 'GETSTR': 'getstr',
                    'GETINT': 'getint', 'GETAT': 'getat', 'SIZE': 'size', 'CLEAR': 'clear', 'SETSIZE': 'setsize', 'CTOR': '', 'ORDER': 'push+pop', 'PUSHINV': 'push'},
          'grow': {'PUSH': 'add', 'PUSHSTR': 'addstr', 'TOARRAY': 'toarray', 'TOSTRING': 'tostring', 'SIZE': 'size+datasize', 'CLEAR': 'clear', 'CTOR': '', 'ORDER': 'add+toarray', 'PUSHINV': 'add'}}
QNAMES['stack'] = QNAMES['queue']
LISTFN = {'PUSH': ['qlist_addat'], 'PUSHSTR': ['qlist_addat'], 'PUSHINT': ['qlist_addat'], 'PUSHINV': ['qlist_addat'], 'POP': ['qlist_popat', 'get_at', 'remove_obj'], 'POPSTR': ['qlist_popat', 'get_at', 'remove_obj'],
          'POPINT': ['qlist_popat', 'get_at', 'remove_obj'], 'POPAT': ['qlist_popat', 'get_at', 'get_obj', 'remove_obj'], 'GET': ['qlist_getat', 'get_at'], 'GETSTR': ['qlist_getat', 'get_at'],
          'GETINT': ['qlist_getat', 'get_at'], 'GETAT': ['qlist_getat', 'get_at', 'get_obj'], 'SIZE': ['qlist_size', 'qlist_datasize'], 'CLEAR': ['qlist_clear'], 'SETSIZE': ['qlist_setsize'], 'CTOR': ['qlist'],
          'ORDER': ['qlist_addat', 'qlist_popat', 'qlist_toarray'], 'TOARRAY': ['qlist_toarray'], 'TOSTRING': ['qlist_tostring']}


def qsg_cases(tier, prefix='c09', extra_defs=None, checks='func', leak=False, kinds=None, ops=None, ns=None, alpha=None, timeout=None, safety_owner='C11'):
    q = tier == 'quick'
    out = []
    ns = ns if ns is not None else (range(0, 3) if q else range(0, 4))
    alpha = alpha or ((1, 2) if q else (1, 3))
    timeout = timeout or (120 if q else 600)
    for kind in (kinds or ['queue', 'stack', 'grow']):
        kops = GROW_OPS if kind == 'grow' else QS_OPS
        for op in kops:
            if ops is not None and op not in ops:
                continue
            for n in ([0] if op == 'CTOR' else ns):
                if op in ('POPINT', 'GETINT'):
                    # documented precondition: the head element (node 0) was pushed with pushint(): 8 bytes
                    pats = [''.join(str(d) for d in reversed((8,) + t)) for t in itertools.product(alpha, repeat=n - 1)] if n > 0 else ['']
                else:
                    pats = patterns(n, alpha) if n > 0 else ['']
                if op == 'PUSHSTR':
                    # string length is structure (allocation size): constant per query. VF_ESZ sizes the model's byte columns: the caller's block is VF_SLEN+1 bytes
                    extras = [({'VF_SLEN': sl, 'VF_ESZ': sl + 1}, '.s%d' % sl) for sl in ((0, 2) if q else (0, 1, 2, 3))]
                elif op == 'PUSHINT':
                    extras = [({'VF_ESZ': 8}, '')]
                elif op in Q_INSERTING:
                    extras = [({'VF_ESZ': e}, '.e%d' % e) for e in ((2,) if q else (1, 3))]
                else:
                    extras = [({'VF_ESZ': 1}, '')]
                for p in pats:
                    for ed, esfx in extras:
                        d = {'VF_KIND': KINDS[kind], 'VF_OP': QOPS[op], 'VF_N': n}
                        d.update(ed)
                        digits = [int(ch) for ch in p] or [1]
                        d['VF_MAXSZ'] = max(digits + [1])
                        if p:
                            d['VF_SIZES'] = p
                        d.update(extra_defs or {})
                        cid = '%s.%s.%s.n%d%s%s' % (prefix, kind, op, n, ('.sz' + p) if p else '', esfx)
                        bmax = max(d['VF_ESZ'], d['VF_MAXSZ'], d.get('VF_SLEN', 0) + 1)
                        fn = QNAMES[kind][op]
                        out.append(Case(cid, 'qsg.c', d, unwind=max(n + 3, bmax) + 4, checks=checks, leak=leak, timeout=timeout,
                                        funcs=(['q%s_%s' % (kind, f) for f in fn.split('+')] if fn else ['q%s' % kind, 'q%s_free' % kind]) + LISTFN[op], safety_owner=safety_owner,
                                        desc='%s %s from any valid state of %d elements (sizes %s constant per query; bytes, max, index, flags symbolic)' % (kind, op, n, p or '-')))
    return out


FAILS = [({'VF_FAILMASK': 1}, 'f0'), ({'VF_FAILMASK': 2}, 'f1'), ({'VF_FAILMASK': 4}, 'f2'), ({'VF_FAILMASK': 0, 'VF_FAILFROM': 0}, 'ff0'), ({'VF_FAILMASK': 0, 'VF_FAILFROM': 1}, 'ff1')]


def cases(tier, mode='func'):
    """mode: func (C09) | safety (C11) | copy (C12) | lock (C14) | allocfail (C15)"""
    q = tier == 'quick'
    if mode == 'func':
        return list_cases(tier) + qsg_cases(tier)
    if mode == 'safety':
        return (list_cases(tier, prefix='c11', checks='safety', leak=True, ns=[0, 1, 2, 4] if q else range(0, 6), eszs=[2] if q else [1, 3]) +
                qsg_cases(tier, prefix='c11', checks='safety', leak=True, alpha=(1, 2)))
    if mode == 'copy':
        return (list_cases(tier, prefix='c12', checks='safety', ops=['ADD', 'GET', 'POP', 'WALK', 'TOARRAY', 'TOSTRING', 'CTOR'], ns=[1, 2] if q else [1, 2, 3, 4], eszs=[2] if q else [1, 3]) +
                qsg_cases(tier, prefix='c12', checks='safety', ops=['PUSH', 'PUSHSTR', 'PUSHINT', 'POP', 'POPSTR', 'POPAT', 'GET', 'GETSTR', 'GETAT', 'TOARRAY', 'TOSTRING', 'ORDER'],
                          ns=[1, 2], alpha=(1, 2)))
    out = []
    if mode == 'lock':
        for fd, fs in FAILS + [({'VF_FAILMASK': 0}, 'nofail')]:
            d = {'VF_TS': None, 'VF_ALLOCFAIL': None}
            d.update(fd)
            ops = list(OPS) if fs == 'nofail' else list(ALLOCATING)
            out += list_cases(tier, prefix='c14.%s' % fs, extra_defs=d, ops=ops, ns=[0, 2] if q else [0, 1, 2, 3], eszs=[2], pat_alpha=(1, 2))
            qops = [o for o in QOPS if fs == 'nofail' or o in Q_ALLOCATING]
            out += qsg_cases(tier, prefix='c14.%s' % fs, extra_defs=d, ops=qops, ns=[0, 2] if q else [0, 1, 2], alpha=(2,) if q else (1, 2))
        return out
    if mode == 'allocfail':
        for fd, fs in FAILS:
            d = {'VF_ALLOCFAIL': None}
            d.update(fd)
            out += list_cases(tier, prefix='c15.%s' % fs, extra_defs=d, ops=list(ALLOCATING), ns=[0, 2] if q else [0, 1, 2, 3], eszs=[2], pat_alpha=(1, 2), safety_owner='C15')
            out += list_cases(tier, prefix='c15.ts.%s' % fs, extra_defs=dict(d, VF_TS=None), ops=['CTOR'], eszs=[2], safety_owner='C15')
            out += qsg_cases(tier, prefix='c15.%s' % fs, extra_defs=d, ops=list(Q_ALLOCATING), ns=[0, 2] if q else [0, 1, 2], alpha=(2,) if q else (1, 2), safety_owner='C15')
            out += qsg_cases(tier, prefix='c15.ts.%s' % fs, extra_defs=dict(d, VF_TS=None), ops=['CTOR'], safety_owner='C15')
        return out
    raise ValueError(mode)


def info(tier):
    q = tier == 'quick'
    return {'container': 'list (qlist.c) and its wrappers queue, stack, grow buffer (qqueue.c, qstack.c, qgrow.c)',
            'bounds': 'list: %s nodes; element sizes symbolic 1..3 per node (toarray/tostring: every size pattern over %s, constant per query); inserted element %s bytes; '
                      'element bytes, max (any size_t), index (whole int range), at/first/last variant, copy flag, size out-parameter symbolic. '
                      'queue/stack/grow: %s elements, every size pattern over %s (popint/getint: head element 8 bytes, as documented), pushed element %s bytes, pushstr/addstr string length %s, '
                      'pushint value any int64; plus one history per state: push x, push y, drain (grow: add x, add y, toarray). '
                      'Allocation-failure position (1st, 2nd, 3rd allocation of the call; all from the 1st / 2nd on) constant per query in the C14/C15 runs'
                      % (('0..4', '{1,2}', '{1,3}', '0..2', '{1,2}', '{2}', '{0,2}') if q else ('0..5', '{1,2,3} (n=5: {1,2})', '{1,2,3,8}', '0..3', '{1,3}', '{1,3}', '{0,1,2,3}')),
            'prestate': 'every well-formed doubly linked list of n nodes (first/last/prev/next consistent, num = n, datasum = sum of sizes, every size >= 1) with any max: '
                        'reachable by the constructor + n addlast() (queue: n push, stack: n push in reverse order, grow: n add) + setsize(max), which never looks at num; '
                        'the grow buffer offers no setsize, so its max is 0',
            'stubs': ['allocator shim stubs.h (failure position constant per query in C14/C15 runs, never fails otherwise)',
                      'lock model stubs.h (trylock always succeeds for the single logical thread; depth counted)',
                      'memcpy modelled as a byte loop with an explicit non-overlap assertion (ref/listmem.h): CBMC\'s built-in memcpy is imprecise when source node and length are solver-chosen',
                      'not encoded: qlist_debug/qqueue_debug/qstack_debug/qgrow_debug (stdio output) and the printf-style qgrow_addstrf (vsnprintf formatting is outside the claim)']}
