from ..engine import Case

PROP = 'C14'
NAME = 'qlog'

OPS = {'WRITE': 1, 'WRITEF': 2, 'DUPLICATE': 3, 'FLUSH': 4, 'FREE': 5, 'CTOR': 6}
FUNCS = {'WRITE': ['write_', '_real_open'], 'WRITEF': ['writef', 'write_', '_real_open'], 'DUPLICATE': ['duplicate'], 'FLUSH': ['flush_'], 'FREE': ['free_', 'flush_'], 'CTOR': ['qlog', '_real_open', 'write_', 'free_']}
# allocation-failure positions: writef allocates (formatting buffer, possibly twice), the constructor allocates the object and the mutex
FAILS = {'WRITEF': [({'VF_FAILMASK': 0}, 'nofail'), ({'VF_FAILMASK': 1}, 'f0'), ({'VF_FAILMASK': 2}, 'f1')],
         'CTOR': [({'VF_FAILMASK': 0}, 'nofail'), ({'VF_FAILMASK': 1}, 'f0'), ({'VF_FAILMASK': 2}, 'f1'), ({'VF_FAILMASK': 0, 'VF_FAILFROM': 0}, 'ff0')]}


def cases(tier, mode='lock'):
    if mode != 'lock':
        return []
    out = []
    for op in OPS:
        for fd, fs in FAILS.get(op, [({'VF_FAILMASK': 0}, 'nofail')]):
            d = {'VF_OP': OPS[op], 'VF_TS': None, 'VF_ALLOCFAIL': None}
            d.update(fd)
            out.append(Case('c14.%s.qlog.%s' % (fs, op), 'qlog.c', d, unwind=6, checks='func', timeout=300, funcs=FUNCS[op], safety_owner='C11',
                            desc='qlog %s on a thread-safe logger in any state (file open or not, duplicate stream, flush flags, rotation due or not); time, strftime, fopen, fprintf, vsnprintf results symbolic' % op))
    return out


def info(tier):
    return {'container': 'rotating logger (qlog.c)',
            'bounds': 'one call of each method and of the constructor; paths and messages <= 2 bytes; at most 2 fopen / 2 fprintf / 2 vsnprintf answers are symbolic (later ones succeed)',
            'prestate': 'thread-safe qlog_t built directly with every private field symbolic (file open or closed, duplicate stream, flags, rotation interval 0..86400, next rotation instant)',
            'stubs': ['qlog: time/localtime/gmtime/mktime/strftime/fopen/fclose/fflush/fileno/fchmod/fprintf return solver-chosen values; vsnprintf writes "m" and reports a solver-chosen non-negative length (message text outside the claim)']}
