#!/bin/sh
# Offline setup: nothing to download or build ahead of time; every check compiles
# its harness from /repo's current tree with goto-cc on each run.
set -e
cd "$(dirname "$0")"
for t in cbmc goto-cc goto-instrument z3 gcc python3 ar; do
  command -v $t >/dev/null || { echo "missing tool: $t"; exit 1; }
done
mkdir -p evidence .work
python3 tools/mkmanifest.py --check
echo "setup ok: $(cbmc --version)"
