/* Reference specifications for C19 (string utilities, src/utilities/qstring.c).
 *
 * Written from the documentation comments of qstring.c / the statement of C19, as
 * simple loops over (pointer, length) byte arrays - no NUL-terminator tricks, no
 * pointer arithmetic, no libc.  Every function writes its result into a caller
 * array and returns a length/count, so a harness can compare byte by byte.
 *
 * Readings fixed here where the documentation is silent (listed in c19.py meta):
 *  - spec_gets: a call consumes at most size-1 source characters (the fgets rule);
 *  - spec_split: the empty remainder after a trailing delimiter (and the empty
 *    string) is "no more tokens", not an extra empty field - the offset protocol
 *    of qstrtok() cannot express it and the documentation example ("a:b::d")
 *    only shows inner empty fields.
 */
#ifndef STRSPEC_H
#define STRSPEC_H
#include <stddef.h>

/* the white space set of the trim functions: blank, tab, CR, LF - nothing else */
static int spec_blank(unsigned char c) { return c == ' ' || c == '\t' || c == '\r' || c == '\n'; }

/* [*a, *b) is what remains of s[0..n) after removing leading (head) and/or
 * trailing (tail) white space */
static void spec_trim_extent(const unsigned char *s, size_t n, int head, int tail, size_t *a, size_t *b) {
    size_t lo = 0, hi = n;
    if (head)
        while (lo < n && spec_blank(s[lo])) lo++;
    if (tail)
        while (hi > lo && spec_blank(s[hi - 1])) hi--;
    *a = lo;
    *b = hi;
}

/* does pat[0..m) occur in hay[0..n) at index i ? */
static int spec_occurs_at(const unsigned char *hay, size_t n, size_t i, const unsigned char *pat, size_t m) {
    if (i > n || m > n - i) return 0;
    for (size_t j = 0; j < m; j++)
        if (hay[i + j] != pat[j]) return 0;
    return 1;
}

/* smallest index >= from at which pat occurs, or -1 (the empty pattern occurs everywhere) */
static long spec_find(const unsigned char *hay, size_t n, size_t from, const unsigned char *pat, size_t m) {
    for (size_t i = from; i <= n; i++)
        if (spec_occurs_at(hay, n, i, pat, m)) return (long)i;
    return -1;
}

static int spec_member(unsigned char c, const unsigned char *set, size_t t) {
    for (size_t j = 0; j < t; j++)
        if (set[j] == c) return 1;
    return 0;
}

/* token mode: every character of src that is listed in tok becomes word; returns the
 * output length, *count = number of characters replaced */
static size_t spec_replace_tok(const unsigned char *src, size_t n, const unsigned char *tok, size_t t,
                               const unsigned char *word, size_t w, unsigned char *out, size_t *count) {
    size_t o = 0, c = 0;
    for (size_t i = 0; i < n; i++) {
        if (spec_member(src[i], tok, t)) {
            for (size_t k = 0; k < w; k++) out[o++] = word[k];
            c++;
        } else {
            out[o++] = src[i];
        }
    }
    *count = c;
    return o;
}

/* string mode: scanning left to right, every occurrence of tok (t >= 1) that starts
 * at or after the end of the previous replaced occurrence is replaced by word */
static size_t spec_replace_str(const unsigned char *src, size_t n, const unsigned char *tok, size_t t,
                               const unsigned char *word, size_t w, unsigned char *out, size_t *count) {
    size_t o = 0, c = 0, i = 0;
    while (i < n) {
        if (spec_occurs_at(src, n, i, tok, t)) {
            for (size_t k = 0; k < w; k++) out[o++] = word[k];
            i += t;
            c++;
        } else {
            out[o++] = src[i];
            i++;
        }
    }
    *count = c;
    return o;
}

static size_t spec_min(size_t a, size_t b) { return a < b ? a : b; }

/* one line from text[off..n): returns 0 at end of text (nothing consumed), else 1 with
 * the line (CR and LF not stored) in out[0..*olen) and *newoff after the consumed part.
 * At most size-1 (size >= 1) source characters are consumed per call. */
static int spec_gets(const unsigned char *text, size_t n, size_t off, size_t size, unsigned char *out, size_t *olen, size_t *newoff) {
    if (off >= n) return 0;
    size_t o = 0, p = off, consumed = 0;
    while (p < n && consumed < size - 1) {
        unsigned char c = text[p];
        p++;
        consumed++;
        if (c == '\n') break;
        if (c != '\r') out[o++] = c;
    }
    *olen = o;
    *newoff = p;
    return 1;
}

static unsigned char spec_upper(unsigned char c) { return (c >= 'a' && c <= 'z') ? (unsigned char)(c - 'a' + 'A') : c; }
static unsigned char spec_lower(unsigned char c) { return (c >= 'A' && c <= 'Z') ? (unsigned char)(c - 'A' + 'a') : c; }

/* index of the first delimiter at or after from, or n */
static size_t spec_field_end(const unsigned char *s, size_t n, size_t from, const unsigned char *delims, size_t d) {
    size_t q = from;
    while (q < n && !spec_member(s[q], delims, d)) q++;
    return q;
}

/* fields of s[0..n) in order: field i is s[start[i] .. start[i]+len[i]), stop[i] is the
 * delimiter that ended it (0 for the last field when it runs to the end); returns the
 * number of fields (at most n; arrays need n+1 entries) */
static size_t spec_split(const unsigned char *s, size_t n, const unsigned char *delims, size_t d,
                         size_t *start, size_t *len, unsigned char *stop) {
    size_t cnt = 0, p = 0;
    while (p < n) {
        size_t q = spec_field_end(s, n, p, delims, d);
        start[cnt] = p;
        len[cnt] = q - p;
        stop[cnt] = (q < n) ? s[q] : 0;
        cnt++;
        p = (q < n) ? q + 1 : n;
    }
    return cnt;
}
#endif
