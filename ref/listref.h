/* listref.h - specification side of the list family (C09): ideal sequence of byte strings, direct construction of a
 * well-formed doubly linked list, the well-formedness checker and the C12 caller-buffer scribbler.
 * Shared by harness/list.c (qlist) and harness/qsg.c (queue, stack, grow buffer - thin wrappers over qlist).
 *
 * Include AFTER vf.h, stubs.h and the real containers/qlist.c, with VF_CN (container name string literal) defined.
 *
 * Per-query constants (driver): VF_N number of nodes in the pre-state; VF_ESZ size of the element an operation inserts;
 * element sizes of the pre-state nodes either
 *   - VF_SIZES  decimal digit string, digit i (least significant first) = size of node i  (all sizes constant), or
 *   - symbolic per node in 1..VF_MAXSZ, realised as a choice among VF_MAXSZ concrete exactly-sized allocations.
 */
#ifndef LISTREF_H
#define LISTREF_H

#ifndef VF_N
#define VF_N 2
#endif
#ifndef VF_MAXSZ
#define VF_MAXSZ 3
#endif
#ifndef VF_ESZ
#define VF_ESZ 1
#endif
#define NCAP (VF_N > 0 ? VF_N : 1)
#define GCAP (VF_N + 3) /* pre-state + at most three insertions in one query */
#define BMAX ((VF_ESZ) > (VF_MAXSZ) ? (VF_ESZ) : (VF_MAXSZ))

/* symbolic inputs describing the pre-state (members of struct vf_input) */
#define VF_LIST_INPUT_FIELDS \
    uint8_t sz[NCAP];        \
    uint8_t data[NCAP][VF_MAXSZ]; \
    uint64_t max;

/* ---------------- ideal sequence ---------------- */
static uint8_t gb[GCAP][BMAX]; /* element bytes */
static size_t gs[GCAP];        /* element sizes */
static size_t gn;              /* element count */
static size_t gmax;            /* configured limit (0 = unlimited) */

static size_t g_datasum(void) {
    size_t s = 0;
    for (size_t i = 0; i < GCAP; i++)
        if (i < gn) s += gs[i];
    return s;
}
static void g_insert(size_t pos, const uint8_t *bytes, size_t size) {
    for (size_t i = GCAP - 1; i > 0; i--)
        if (i > pos && i <= gn) {
            gs[i] = gs[i - 1];
            for (size_t k = 0; k < BMAX; k++) gb[i][k] = gb[i - 1][k];
        }
    gs[pos] = size;
    for (size_t k = 0; k < BMAX; k++) gb[pos][k] = k < size ? bytes[k] : 0;
    gn++;
}
static void g_remove(size_t pos) {
    for (size_t i = 0; i + 1 < GCAP; i++)
        if (i >= pos && i + 1 < gn) {
            gs[i] = gs[i + 1];
            for (size_t k = 0; k < BMAX; k++) gb[i][k] = gb[i + 1][k];
        }
    gn--;
}
static void g_reverse(void) {
    for (size_t i = 0; i < GCAP / 2 + 1; i++) {
        if (gn >= 2 && i < gn / 2) {
            size_t j = gn - 1 - i;
            size_t t = gs[i]; gs[i] = gs[j]; gs[j] = t;
            for (size_t k = 0; k < BMAX; k++) { uint8_t c = gb[i][k]; gb[i][k] = gb[j][k]; gb[j][k] = c; }
        }
    }
}
static bool g_elem_eq(const void *p, size_t i) {
    for (size_t k = 0; k < BMAX; k++)
        if (k < gs[i] && ((const uint8_t *)p)[k] != gb[i][k]) return false;
    return true;
}
/* documented index rules (qlist.c): access: 0..n-1 from the front, -1..-n from the back;
 * insertion: 0..n from the front, -1 = append (after the last), -(n+1) = before the first */
static long g_pos_access(long idx, size_t n) { return idx < 0 ? idx + (long)n : idx; }
static long g_pos_insert(long idx, size_t n) { return idx < 0 ? idx + (long)n + 1 : idx; }

/* ---------------- direct construction of the pre-state ---------------- */
static qlist_obj_t *vf_node[NCAP]; /* the nodes of the pre-state, in order */
static void *vf_ndata[NCAP];       /* their data blocks */

#ifdef VF_SIZES
static const unsigned long vf_pow10[] = {1ul, 10ul, 100ul, 1000ul, 10000ul, 100000ul, 1000000ul, 10000000ul};
#define VF_PRESZ(i, sz) ((size_t)(((unsigned long)(VF_SIZES) / vf_pow10[i]) % 10ul))
#else
#define VF_PRESZ(i, sz) ((size_t)(sz)[i])
#endif

/* exactly sized block: a choice among concrete allocation sizes, never a symbolic allocation size */
static uint8_t *vf_alloc_sized(size_t s) {
    uint8_t *p = NULL;
    for (size_t c = 1; c <= BMAX; c++)
        if (s == c) p = malloc(c);
    VF_ASSUME(p != NULL);
    return p;
}
static uint8_t *vf_caller_buf(const uint8_t *src, size_t n) {
    uint8_t *b = vf_alloc_sized(n);
    for (size_t k = 0; k < BMAX; k++)
        if (k < n) b[k] = src[k];
    return b;
}

static void vf_build(qlist_t *l, const uint8_t *sz, const uint8_t (*data)[VF_MAXSZ], uint64_t max) {
    size_t sum = 0;
    for (size_t i = 0; i < VF_N; i++) {
        size_t s = VF_PRESZ(i, sz);
        VF_ASSUME(s >= 1 && s <= VF_MAXSZ);
        uint8_t *d = vf_alloc_sized(s);
        for (size_t k = 0; k < VF_MAXSZ; k++)
            if (k < s) d[k] = data[i][k];
        qlist_obj_t *o = malloc(sizeof(qlist_obj_t));
        VF_ASSUME(o != NULL);
        o->data = d;
        o->size = s;
        o->prev = i > 0 ? vf_node[i - 1] : NULL;
        o->next = NULL;
        if (i > 0) vf_node[i - 1]->next = o;
        vf_node[i] = o;
        vf_ndata[i] = d;
        gs[i] = s;
        for (size_t k = 0; k < BMAX; k++) gb[i][k] = (k < s && k < VF_MAXSZ) ? data[i][k < VF_MAXSZ ? k : 0] : 0;
        sum += s;
    }
    l->first = VF_N > 0 ? vf_node[0] : NULL;
    l->last = VF_N > 0 ? vf_node[NCAP - 1] : NULL;
    l->num = VF_N;
    l->datasum = sum;
    l->max = (size_t)max;
    gn = VF_N;
    gmax = (size_t)max;
}

/* ---------------- well-formedness (representation invariant) ---------------- */
static bool vf_wf(qlist_t *l) {
    size_t cnt = 0, sum = 0;
    qlist_obj_t *prev = NULL, *o = l->first;
    void *seen[GCAP + 1];
    for (size_t i = 0; i < GCAP + 1; i++) {
        if (o != NULL) {
            if (o->prev != prev) return false;            /* back link mirrors forward link; first->prev == NULL */
            if (o->data == NULL || o->size == 0) return false;
            for (size_t j = 0; j < GCAP + 1; j++)          /* every node owns its own data block */
                if (j < i && VF_SAME_OBJECT(seen[j], o->data)) return false;
            seen[i] = o->data;
            cnt++;
            sum += o->size;
            prev = o;
            o = o->next;
        }
    }
    if (o != NULL) return false;                          /* longer than any list in this query: cycle or stray link */
    if (l->last != prev) return false;                    /* last is the final node; both NULL when empty */
    return cnt == l->num && sum == l->datasum;            /* num = node count, datasum = sum of sizes */
}

/* container == ideal sequence: order, sizes, bytes, counters, limit; size()/datasize() exact */
static bool vf_matches(qlist_t *l) {
    if (l->num != gn || l->max != gmax) return false;
    size_t sum = 0;
    qlist_obj_t *o = l->first;
    for (size_t i = 0; i < GCAP; i++) {
        if (i < gn) {
            if (o == NULL || o->size != gs[i] || o->data == NULL) return false;
            if (!g_elem_eq(o->data, i)) return false;
            sum += gs[i];
            o = o->next;
        }
    }
    if (o != NULL) return false;
    return l->size(l) == gn && l->datasize(l) == sum && l->datasum == sum;
}

/* ---------------- C12 "private copies in" ----------------
 * snapshot the container right after the call, overwrite the caller's buffer, compare, release it, compare again:
 * the container must still hold the snapshot (independent of whether the call itself was correct). */
static bool vf_snap_eq(qlist_t *l, size_t sn, const size_t *ss, uint8_t (*sb)[BMAX]) {
    qlist_obj_t *o = l->first;
    for (size_t i = 0; i < GCAP; i++) {
        if (i < sn) {
            if (o == NULL || o->size != ss[i]) return false;
            for (size_t k = 0; k < BMAX; k++)
                if (k < ss[i] && ((uint8_t *)o->data)[k] != sb[i][k]) return false;
            o = o->next;
        }
    }
    return true;
}
static void vf_scribble_free(qlist_t *l, uint8_t *b, size_t bsz) {
    size_t ss[GCAP];
    uint8_t sb[GCAP][BMAX];
    size_t sn = 0;
    qlist_obj_t *o = l->first;
    for (size_t i = 0; i < GCAP; i++) {
        if (o != NULL && o->data != NULL) {
            ss[i] = o->size;
            for (size_t k = 0; k < BMAX; k++)
                if (k < o->size) sb[i][k] = ((uint8_t *)o->data)[k];
            sn++;
            o = o->next;
        } else {
            o = NULL;
        }
    }
    for (size_t k = 0; k < BMAX; k++)
        if (k < bsz) b[k] = (uint8_t)~b[k];
    VF_ASSERT(vf_snap_eq(l, sn, ss, sb), "C12." VF_CN ".in.private: overwriting the caller's buffer after the call does not change the container");
    free(b);
    VF_ASSERT(vf_snap_eq(l, sn, ss, sb), "C12." VF_CN ".in.private: releasing the caller's buffer after the call does not change the container");
}

/* is p (a pointer handed out by the API) one of the container's own data blocks? */
static bool vf_is_internal(qlist_t *l, const void *p) {
    qlist_obj_t *o = l->first;
    for (size_t i = 0; i < GCAP; i++) {
        if (o != NULL) {
            if (VF_SAME_OBJECT(o->data, p)) return true;
            o = o->next;
        }
    }
    for (size_t i = 0; i < VF_N; i++)
        if (VF_SAME_OBJECT(vf_ndata[i], p)) return true;
    return false;
}

#endif /* LISTREF_H */
