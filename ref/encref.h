/* Independent reference definitions for C16 (written from RFC 4648 / RFC 3986,
 * not from qencode.c). */
#ifndef ENCREF_H
#define ENCREF_H
#include <stddef.h>

static const char REF_B64[] =
    "ABCDEFGHIJKLMNOPQRSTUVWXYZabcdefghijklmnopqrstuvwxyz0123456789+/";

/* RFC 4648 section 4; out must hold 4*ceil(n/3)+1 bytes; returns length */
static size_t ref_b64_encode(const unsigned char *in, size_t n, char *out) {
    size_t o = 0, i = 0;
    while (n - i >= 3) {
        unsigned v = ((unsigned)in[i] << 16) | ((unsigned)in[i + 1] << 8) | in[i + 2];
        out[o++] = REF_B64[(v >> 18) & 63];
        out[o++] = REF_B64[(v >> 12) & 63];
        out[o++] = REF_B64[(v >> 6) & 63];
        out[o++] = REF_B64[v & 63];
        i += 3;
    }
    if (n - i == 1) {
        unsigned v = (unsigned)in[i] << 16;
        out[o++] = REF_B64[(v >> 18) & 63];
        out[o++] = REF_B64[(v >> 12) & 63];
        out[o++] = '=';
        out[o++] = '=';
    } else if (n - i == 2) {
        unsigned v = ((unsigned)in[i] << 16) | ((unsigned)in[i + 1] << 8);
        out[o++] = REF_B64[(v >> 18) & 63];
        out[o++] = REF_B64[(v >> 12) & 63];
        out[o++] = REF_B64[(v >> 6) & 63];
        out[o++] = '=';
    }
    out[o] = 0;
    return o;
}

static int ref_hexval(unsigned char c) {
    if (c >= '0' && c <= '9') return c - '0';
    if (c >= 'a' && c <= 'f') return c - 'a' + 10;
    if (c >= 'A' && c <= 'F') return c - 'A' + 10;
    return -1;
}
static char ref_lowhex(unsigned v) { return (char)(v < 10 ? '0' + v : 'a' + (v - 10)); }

/* may this byte appear literally in URL-encoded output? (property C16: never a
 * space, control or non-ASCII byte, nor any of % + & = ? # " < >) */
static int ref_url_literal_ok(unsigned char c) {
    if (c <= 0x20 || c >= 0x7f) return 0;
    switch (c) {
        case '%': case '+': case '&': case '=': case '?': case '#': case '"': case '<': case '>':
            return 0;
    }
    return 1;
}
#endif
