(set-logic QF_BV)
(declare-const h (_ BitVec 32))
; lemma: Noll's shift-add form (ref/hashref.h, and qhash.c under __GNUC__) == multiplication by the FNV prime mod 2^32
(assert (not (= (bvmul h #x01000193) ;;NEG
  (bvadd h (bvshl h #x00000001) (bvshl h #x00000004) (bvshl h #x00000007) (bvshl h #x00000008) (bvshl h #x00000018))))) ;;NEG
(check-sat)
