/* Independent references for C18, written from the published algorithm
 * descriptions (Appleby's MurmurHash3.cpp, Noll's FNV-1, RFC 1321), using
 * byte-wise little-endian block assembly so that no alignment or aliasing
 * assumption is involved. */
#ifndef HASHREF_H
#define HASHREF_H
#include <stdint.h>
#include <stddef.h>

static uint32_t ref_rotl32(uint32_t x, int r) { return (x << r) | (x >> (32 - r)); }
static uint64_t ref_rotl64(uint64_t x, int r) { return (x << r) | (x >> (64 - r)); }
static uint32_t ref_le32(const uint8_t *p) { return (uint32_t)p[0] | ((uint32_t)p[1] << 8) | ((uint32_t)p[2] << 16) | ((uint32_t)p[3] << 24); }
static uint64_t ref_le64(const uint8_t *p) { return (uint64_t)ref_le32(p) | ((uint64_t)ref_le32(p + 4) << 32); }

/* MurmurHash3_x86_32, seed 0 */
static uint32_t ref_murmur3_32(const uint8_t *d, size_t len) {
    uint32_t h1 = 0;
    const uint32_t c1 = 0xcc9e2d51u, c2 = 0x1b873593u;
    size_t nb = len / 4;
    for (size_t i = 0; i < nb; i++) {
        uint32_t k1 = ref_le32(d + 4 * i);
        k1 *= c1; k1 = ref_rotl32(k1, 15); k1 *= c2;
        h1 ^= k1; h1 = ref_rotl32(h1, 13); h1 = h1 * 5 + 0xe6546b64u;
    }
    const uint8_t *t = d + 4 * nb;
    uint32_t k1 = 0;
    size_t r = len & 3;
    if (r >= 3) k1 ^= (uint32_t)t[2] << 16;
    if (r >= 2) k1 ^= (uint32_t)t[1] << 8;
    if (r >= 1) { k1 ^= t[0]; k1 *= c1; k1 = ref_rotl32(k1, 15); k1 *= c2; h1 ^= k1; }
    h1 ^= (uint32_t)len;
    h1 ^= h1 >> 16; h1 *= 0x85ebca6bu; h1 ^= h1 >> 13; h1 *= 0xc2b2ae35u; h1 ^= h1 >> 16;
    return h1;
}

static uint64_t ref_fmix64(uint64_t k) {
    k ^= k >> 33; k *= 0xff51afd7ed558ccdULL; k ^= k >> 33; k *= 0xc4ceb9fe1a85ec53ULL; k ^= k >> 33;
    return k;
}
/* MurmurHash3_x64_128, seed 0 */
static void ref_murmur3_128(const uint8_t *d, size_t len, uint64_t out[2]) {
    uint64_t h1 = 0, h2 = 0;
    const uint64_t c1 = 0x87c37b91114253d5ULL, c2 = 0x4cf5ad432745937fULL;
    size_t nb = len / 16;
    for (size_t i = 0; i < nb; i++) {
        uint64_t k1 = ref_le64(d + 16 * i), k2 = ref_le64(d + 16 * i + 8);
        k1 *= c1; k1 = ref_rotl64(k1, 31); k1 *= c2; h1 ^= k1;
        h1 = ref_rotl64(h1, 27); h1 += h2; h1 = h1 * 5 + 0x52dce729;
        k2 *= c2; k2 = ref_rotl64(k2, 33); k2 *= c1; h2 ^= k2;
        h2 = ref_rotl64(h2, 31); h2 += h1; h2 = h2 * 5 + 0x38495ab5;
    }
    const uint8_t *t = d + 16 * nb;
    uint64_t k1 = 0, k2 = 0;
    size_t r = len & 15;
    for (size_t j = r; j > 8; j--) k2 ^= (uint64_t)t[j - 1] << (8 * (j - 9));
    if (r > 8) { k2 *= c2; k2 = ref_rotl64(k2, 33); k2 *= c1; h2 ^= k2; }
    for (size_t j = (r > 8 ? 8 : r); j > 0; j--) k1 ^= (uint64_t)t[j - 1] << (8 * (j - 1));
    if (r > 0) { k1 *= c1; k1 = ref_rotl64(k1, 31); k1 *= c2; h1 ^= k1; }
    h1 ^= (uint64_t)len; h2 ^= (uint64_t)len;
    h1 += h2; h2 += h1;
    h1 = ref_fmix64(h1); h2 = ref_fmix64(h2);
    h1 += h2; h2 += h1;
    out[0] = h1; out[1] = h2;
}

/* FNV-1 (multiply then xor), Noll's published gcc-optimised shift-add form of the
 * prime multiply; lemma "shift-add == multiply by the FNV prime mod 2^w" is
 * discharged separately by an SMT query (see tools/fnv_lemma.smt2). */
static uint32_t ref_fnv1_32(const uint8_t *d, size_t len) {
    uint32_t h = 0x811c9dc5u;
    for (size_t i = 0; i < len; i++) {
#ifdef VF_FNV_MULT
        h *= 0x01000193u;
#else
        h += (h << 1) + (h << 4) + (h << 7) + (h << 8) + (h << 24);
#endif
        h ^= d[i];
    }
    return h;
}
static uint64_t ref_fnv1_64(const uint8_t *d, size_t len) {
    uint64_t h = 0xcbf29ce484222325ULL;
    for (size_t i = 0; i < len; i++) {
#ifdef VF_FNV_MULT
        h *= 0x100000001b3ULL;
#else
        h += (h << 1) + (h << 4) + (h << 5) + (h << 7) + (h << 8) + (h << 40);
#endif
        h ^= d[i];
    }
    return h;
}
#endif
