/* listmem.h - memcpy model for the list family. Include AFTER vf.h/stubs.h and BEFORE the real qlibc .c files,
 * with VF_CN (container name string literal) defined.
 *
 * Why: the copy-out paths of qlist.c do memcpy(new, obj->data, obj->size) where obj is the node selected by a symbolic
 * index, so both the source object and the length are solver-chosen among objects of different sizes.  CBMC's built-in
 * memcpy (array_copy/array_replace over whole objects) is imprecise for that shape and yields spurious
 * counterexamples (bytes after the first not copied).  A byte loop is exact; every byte access is still subject to the
 * pointer/bounds checks of the safety configuration, and the non-overlap precondition of memcpy is asserted
 * explicitly so C11 keeps that obligation.  Natively (replay) the real memcpy is used under ASan.
 */
#ifndef LISTMEM_H
#define LISTMEM_H
#ifdef VF_CBMC
static void *vf_memcpy(void *d, const void *s, size_t n) {
    VF_ASSERT(n == 0 || !VF_SAME_OBJECT(d, s) || (const char *)d + n <= (const char *)s || (const char *)s + n <= (const char *)d,
              "C11." VF_CN ".memcpy.overlap: memcpy is never applied to overlapping regions");
    for (size_t i = 0; i < n; i++) ((unsigned char *)d)[i] = ((const unsigned char *)s)[i];
    return d;
}
#undef memcpy
#define memcpy vf_memcpy
#endif
#endif
