/* Independent RFC 1321 reference (table-driven form of RFC 1321 section 3.4).
 * K[i] = floor(2^32 * |sin(i+1)|) was computed by tools (python math.sin), not copied from md5c.c. */
#ifndef MD5REF_H
#define MD5REF_H
#include <stdint.h>
#include <stddef.h>
static const uint32_t REF_MD5_K[64] = {0xd76aa478u, 0xe8c7b756u, 0x242070dbu, 0xc1bdceeeu, 0xf57c0fafu, 0x4787c62au, 0xa8304613u, 0xfd469501u, 0x698098d8u, 0x8b44f7afu, 0xffff5bb1u, 0x895cd7beu, 0x6b901122u, 0xfd987193u, 0xa679438eu, 0x49b40821u, 0xf61e2562u, 0xc040b340u, 0x265e5a51u, 0xe9b6c7aau, 0xd62f105du, 0x02441453u, 0xd8a1e681u, 0xe7d3fbc8u, 0x21e1cde6u, 0xc33707d6u, 0xf4d50d87u, 0x455a14edu, 0xa9e3e905u, 0xfcefa3f8u, 0x676f02d9u, 0x8d2a4c8au, 0xfffa3942u, 0x8771f681u, 0x6d9d6122u, 0xfde5380cu, 0xa4beea44u, 0x4bdecfa9u, 0xf6bb4b60u, 0xbebfbc70u, 0x289b7ec6u, 0xeaa127fau, 0xd4ef3085u, 0x04881d05u, 0xd9d4d039u, 0xe6db99e5u, 0x1fa27cf8u, 0xc4ac5665u, 0xf4292244u, 0x432aff97u, 0xab9423a7u, 0xfc93a039u, 0x655b59c3u, 0x8f0ccc92u, 0xffeff47du, 0x85845dd1u, 0x6fa87e4fu, 0xfe2ce6e0u, 0xa3014314u, 0x4e0811a1u, 0xf7537e82u, 0xbd3af235u, 0x2ad7d2bbu, 0xeb86d391u};
static const uint8_t REF_MD5_S[64] = {7, 12, 17, 22, 7, 12, 17, 22, 7, 12, 17, 22, 7, 12, 17, 22, 5, 9, 14, 20, 5, 9, 14, 20, 5, 9, 14, 20, 5, 9, 14, 20, 4, 11, 16, 23, 4, 11, 16, 23, 4, 11, 16, 23, 4, 11, 16, 23, 6, 10, 15, 21, 6, 10, 15, 21, 6, 10, 15, 21, 6, 10, 15, 21};
static uint32_t ref_md5_le32(const uint8_t *p) { return (uint32_t)p[0] | ((uint32_t)p[1] << 8) | ((uint32_t)p[2] << 16) | ((uint32_t)p[3] << 24); }
static void ref_md5_compress(uint32_t st[4], const uint8_t blk[64]) {
    uint32_t M[16];
    for (int i = 0; i < 16; i++) M[i] = ref_md5_le32(blk + 4 * i);
    uint32_t A = st[0], B = st[1], C = st[2], D = st[3];
    for (int i = 0; i < 64; i++) {
        uint32_t F; int g;
        if (i < 16) { F = (B & C) | (~B & D); g = i; }
        else if (i < 32) { F = (D & B) | (~D & C); g = (5 * i + 1) % 16; }
        else if (i < 48) { F = B ^ C ^ D; g = (3 * i + 5) % 16; }
        else { F = C ^ (B | ~D); g = (7 * i) % 16; }
#ifdef VF_MD5_ASSOC
        F = A + F + M[g] + REF_MD5_K[i];   /* same operand association as the RFC reference code */
#else
        F = F + A + REF_MD5_K[i] + M[g];
#endif
        A = D; D = C; C = B;
        B = B + ((F << REF_MD5_S[i]) | (F >> (32 - REF_MD5_S[i])));
    }
    st[0] += A; st[1] += B; st[2] += C; st[3] += D;
}
/* whole-message MD5 over an abstract compression function T */
typedef void (*ref_md5_T)(uint32_t st[4], const uint8_t blk[64]);
/* writes the RFC 1321 padded message (message || 0x80 || 0* || 64-bit LE bit length) */
static size_t ref_md5_pad(const uint8_t *msg, size_t n, uint8_t *out /* >= n+72 */) {
    size_t i = 0;
    for (; i < n; i++) out[i] = msg[i];
    out[i++] = 0x80;
    while (i % 64 != 56) out[i++] = 0;
    uint64_t bits = (uint64_t)n * 8;
    for (int j = 0; j < 8; j++) out[i++] = (uint8_t)(bits >> (8 * j));
    return i;
}
static void ref_md5(const uint8_t *msg, size_t n, uint8_t dig[16], ref_md5_T T, uint8_t *scratch) {
    uint32_t st[4] = {0x67452301u, 0xefcdab89u, 0x98badcfeu, 0x10325476u};
    size_t L = ref_md5_pad(msg, n, scratch);
    for (size_t o = 0; o < L; o += 64) T(st, scratch + o);
    for (int i = 0; i < 4; i++) for (int j = 0; j < 4; j++) dig[4 * i + j] = (uint8_t)(st[i] >> (8 * j));
}
#endif
