(set-logic QF_BV)
(declare-const h (_ BitVec 64))
; lemma: Noll's shift-add form (ref/hashref.h, and qhash.c under __GNUC__) == multiplication by the FNV prime mod 2^64
(assert (not (= (bvmul h #x00000100000001b3) ;;NEG
  (bvadd h (bvshl h #x0000000000000001) (bvshl h #x0000000000000004) (bvshl h #x0000000000000005) (bvshl h #x0000000000000007) (bvshl h #x0000000000000008) (bvshl h #x0000000000000028))))) ;;NEG
(check-sat)
